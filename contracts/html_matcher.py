"""Contracts: emmet/html_matcher/{utils,attributes,scan,__init__}.py  (C16, C09, C17)."""
from pyvc.contracts import fn, cls, define, rec

P = ['C16', 'C09', 'C17']

for _p in ('name_start_char', 'name_char', 'is_terminator', 'is_unquoted'):
    fn('emmet.html_matcher.utils:' + _p, inline=True, pure=True, props=P)

CONSUMER = ['old(scanner.pos) <= scanner.pos',
            'scanner.pos <= max(old(scanner.pos), scanner.end)']
FAIL_KEEPS = 'implies(not result, scanner.pos == old(scanner.pos))'

fn('emmet.html_matcher.utils:consume_array', props=P,
   params={'scanner': 'Scanner', 'codes': 'str'}, returns='bool',
   requires=['wf(scanner)'],
   ensures=CONSUMER + ['implies(not result, scanner.pos == old(scanner.pos) and scanner.start == old(scanner.start))',
                       'implies(result, scanner.pos == old(scanner.pos) + len(codes) and scanner.start == old(scanner.pos))',
                       # what was consumed: exactly the characters of `codes`
                       'implies(result, forall(0, len(codes), lambda i: scanner.string[old(scanner.pos) + i] == codes[i]))'],
   modifies=['scanner.pos', 'scanner.start'],
   loops={0: {'anchor': 'for ch in codes',
              'invariant': ['scanner.pos == start + _i0', 'start == old(scanner.pos)', '_i0 <= len(codes)',
                            'scanner.pos <= max(start, scanner.end)', 'scanner.start == old(scanner.start)',
                            'forall(0, _i0, lambda i: scanner.string[start + i] == codes[i])']}})

fn('emmet.html_matcher.utils:consume_section', props=P,
   params={'scanner': 'Scanner', 'prefix': 'str', 'suffix': 'str', 'allow_unclosed': 'bool'}, returns='bool',
   requires=['wf(scanner)'],
   ensures=CONSUMER + [FAIL_KEEPS,
                       'implies(result, scanner.pos >= old(scanner.pos) + len(prefix) and scanner.start == old(scanner.pos))'],
   modifies=['scanner.pos', 'scanner.start'],
   loops={0: {'anchor': 'while not scanner.eof()',
              'invariant': ['start == old(scanner.pos)', 'start + len(prefix) <= scanner.pos',
                            'scanner.pos <= max(start, scanner.end)'],
              'decreases': 'scanner.end - scanner.pos'}})

fn('emmet.html_matcher.utils:ident', props=P,
   params={'scanner': 'Scanner'}, returns='bool',
   requires=['wf(scanner)'],
   ensures=CONSUMER + ['implies(not result, scanner.pos == old(scanner.pos) and scanner.start == old(scanner.start))',
                       'implies(result, scanner.pos > old(scanner.pos) and scanner.pos <= scanner.end '
                       'and scanner.start == old(scanner.pos))',
                       'implies(result, name_start_char(scanner.string[old(scanner.pos)]))'],
   modifies=['scanner.pos', 'scanner.start'])

fn('emmet.html_matcher.utils:consume_paired', props=P,
   params={'scanner': 'Scanner'}, returns='bool',
   requires=['wf(scanner)'],
   ensures=CONSUMER + [FAIL_KEEPS,
                       'implies(result, scanner.pos >= old(scanner.pos) + 2 and scanner.pos <= scanner.end '
                       'and scanner.start == old(scanner.pos))'],
   modifies=['scanner.pos', 'scanner.start'], allocates=True)

fn('emmet.html_matcher.utils:get_unquoted_value', props=P,
   params={'value': 'str'}, returns='str',
   # weakest precondition for value[-1]: after dropping a leading quote something must be left
   requires=['len(value) >= 2 or (len(value) == 1 and not is_quote(value[0]))'],
   ensures=[], modifies=[])

# ---------------------------------------------------------------------------------------
# attributes.py
# ---------------------------------------------------------------------------------------
cls('emmet.html_matcher.attributes:AttributeToken',
    fields={'name': 'str', 'value': 'str|None', 'name_start': 'int', 'name_end': 'int',
            'value_start': 'int|None', 'value_end': 'int|None'})
fn('emmet.html_matcher.attributes:AttributeToken.__init__', inline=True, props=P)

SUCCESS = 'implies(result, scanner.pos > old(scanner.pos) and scanner.pos <= scanner.end and scanner.start == old(scanner.pos))'

fn('emmet.html_matcher.attributes:attribute_name', props=P,
   params={'scanner': 'Scanner'}, returns='bool',
   requires=['wf(scanner)'],
   ensures=CONSUMER + [FAIL_KEEPS, SUCCESS],
   modifies=['scanner.pos', 'scanner.start'], allocates=True)

fn('emmet.html_matcher.attributes:unquoted', props=P,
   params={'scanner': 'Scanner'}, returns='bool',
   requires=['wf(scanner)'],
   ensures=CONSUMER + [FAIL_KEEPS, SUCCESS,
                       'implies(result, not is_quote(scanner.string[old(scanner.pos)]))'],
   modifies=['scanner.pos', 'scanner.start'])

fn('emmet.html_matcher.attributes:attribute_value', props=P,
   params={'scanner': 'Scanner'}, returns='bool',
   requires=['wf(scanner)'],
   ensures=CONSUMER + [FAIL_KEEPS, SUCCESS,
                       # a value that starts with a quote is a complete quoted string (>= 2 characters)
                       'implies(result and is_quote(scanner.string[old(scanner.pos)]), scanner.pos >= old(scanner.pos) + 2)'],
   modifies=['scanner.pos', 'scanner.start'], allocates=True)

define('attr_ok', ['a', 'lo', 'hi'],
       # the name is non-empty and its range has its length; a value follows the name and the `=`
       'lo <= a.name_start and a.name_start < a.name_end and a.name_end <= hi and '
       'len(a.name) == a.name_end - a.name_start and '
       '(a.value is None or (a.value_start is not None and a.value_end is not None and '
       ' a.name_end < a.value_start and a.value_start < a.value_end and a.value_end <= hi and '
       ' len(a.value) == a.value_end - a.value_start and '
       ' (len(a.value) >= 2 or not is_quote(a.value[0]))))')

fn('emmet.html_matcher.attributes:attributes', props=P,
   params={'src': 'str', 'name': 'str|None'}, returns='list[AttributeToken]',
   requires=[],
   ensures=['fresh(result)',
            'forall(0, len(result), lambda i: fresh(result[i]) and attr_ok(result[i], 0, len(src)))',
            # the tokens are pairwise distinct objects (get_attributes shifts each exactly once)
            'forall(0, len(result), lambda i: forall(0, i, lambda j: result[i] is not result[j]))'],
   modifies=[], allocates=True,
   locals={'result': 'list[AttributeToken]'},
   loops={0: {'anchor': 'while not scanner.eof()', 'writes': 'fresh',
              # with a tag name given the window may be empty or inverted (start > end): then the loop does
              # not run; `0 <= end` and `pos <= end` are therefore not invariants, they follow from the guard
              'invariant': ['0 <= scanner.pos', 'scanner.end <= len(src)',
                            'same_str(scanner.string, src)', 'fresh(result)', 'fresh(scanner)',
                            'forall(0, len(result), lambda i: allocated(result[i]))',
                            'forall(0, len(result), lambda i: forall(0, i, lambda j: result[i] is not result[j]))',
                            'forall(0, len(result), lambda i: fresh(result[i]) and attr_ok(result[i], 0, len(src)))'],
              'decreases': 'scanner.end - scanner.pos'}})

fn('emmet.html_matcher.attributes:get_attribute_value', props=P,
   params={'attrs': 'list[AttributeToken]', 'name': 'str'}, returns='str|None',
   requires=['forall(0, len(attrs), lambda i: attrs[i].value is None or len(attrs[i].value) >= 2 '
             'or (len(attrs[i].value) == 1 and not is_quote(attrs[i].value[0])))'],
   ensures=[], modifies=[],
   loops={0: {'anchor': 'for attr in attrs',
              'invariant': ['_i0 <= len(attrs)']}})

# ---------------------------------------------------------------------------------------
# scan.py
# ---------------------------------------------------------------------------------------
for _p in ('cdata', 'comment'):
    fn('emmet.html_matcher.scan:' + _p, props=P,
       params={'scanner': 'Scanner'}, returns='bool',
       requires=['wf(scanner)'],
       ensures=CONSUMER + [FAIL_KEEPS, 'implies(result, scanner.pos > old(scanner.pos))'],
       modifies=['scanner.pos', 'scanner.start'])

fn('emmet.html_matcher.scan:processing_instruction', props=P,
   params={'scanner': 'Scanner'}, returns='bool',
   requires=['wf(scanner)'],
   ensures=CONSUMER + [FAIL_KEEPS, 'implies(result, scanner.pos > old(scanner.pos))'],
   modifies=['scanner.pos', 'scanner.start'], allocates=True,
   loops={0: {'anchor': 'while not scanner.eof()',
              'invariant': ['old(scanner.pos) + 2 <= scanner.pos', 'scanner.pos <= max(old(scanner.pos), scanner.end)'],
              'decreases': 'scanner.end - scanner.pos'}})

# skip_attributes may leave the cursor one past `end` (trailing white space, then the unconditional
# advance); nothing is reported from that position: every later consumer peeks '' there.  The contract
# says exactly that and the callers are proved against it.
fn('emmet.html_matcher.scan:skip_attributes', props=P,
   params={'scanner': 'Scanner'}, returns='none',
   requires=['wf(scanner)'],
   ensures=['old(scanner.pos) <= scanner.pos', 'scanner.pos <= max(old(scanner.pos), scanner.end + 1)'],
   modifies=['scanner.pos', 'scanner.start'], allocates=True,
   loops={0: {'anchor': 'while not scanner.eof()',
              'invariant': ['old(scanner.pos) <= scanner.pos', 'scanner.pos <= max(old(scanner.pos), scanner.end + 1)'],
              'decreases': 'scanner.end + 1 - scanner.pos'}})

fn('emmet.html_matcher.scan:consume_closing', props=P,
   params={'scanner': 'Scanner', 'name': 'str'}, returns='bool',
   requires=['wf(scanner)'],
   ensures=CONSUMER + ['implies(not result, scanner.pos == old(scanner.pos))',
                       'implies(result, scanner.pos == old(scanner.pos) + len(name) + 3 and scanner.pos <= scanner.end '
                       'and scanner.start == old(scanner.pos))',
                       "implies(result, scanner.string[scanner.start] == '<' and scanner.string[scanner.start + 1] == '/' "
                       "and scanner.string[scanner.pos - 1] == '>')",
                       'implies(result, forall(0, len(name), lambda i: scanner.string[scanner.start + 2 + i] == name[i]))'],
   modifies=['scanner.pos', 'scanner.start'])

fn('emmet.html_matcher.scan:is_special', props=P,
   params={'special': 'any', 'name': 'str', 'source': 'str', 'start': 'int', 'end': 'int'}, returns='bool',
   requires=[], ensures=[], modifies=[], trusted=True,
   note='reads the user supplied `special` table (arbitrary dict): opaque boolean; attributes() inside is proved separately')

HTML_CALLBACK = {
    'param': 'callback',
    'args': ['name', 'elem_type', 'start', 'end'],
    'requires': ['0 <= start', 'start + 2 < end or (start + 2 <= end and elem_type != 2)', 'end <= len(source)',
                 # each tag range starts with `<`, ends with `>`, carries its name right after `<` or `</`
                 "source[start] == '<'", "source[end - 1] == '>'",
                 'elem_type == 1 or elem_type == 2 or elem_type == 3',
                 'len(name) >= 1',
                 'start + (2 if elem_type == 2 else 1) + len(name) < end',
                 'occurs_at(source, start + (2 if elem_type == 2 else 1), name)',
                 # a closing tag starts with `</`, a self-closing one ends with `/>`
                 "implies(elem_type == 2, source[start + 1] == '/')",
                 "implies(elem_type == 3, source[end - 2] == '/')",
                 # increasing, non-overlapping order
                 'g_last_end <= start'],
    'ghost_update': [('g_last_end', 'end')],
    'returns': 'any',
}

fn('emmet.html_matcher.scan:scan', props=P,
   params={'source': 'str', 'callback': 'fn', 'special': 'any'}, returns='none',
   requires=[], ensures=[], modifies=[], allocates=True,
   callback=HTML_CALLBACK,
   ghost={'g_last_end': ('int', '0')},
   locals={'found': 'bool'},
   loops={0: {'anchor': 'while not scanner.eof()',
              'invariant': ['wf(scanner)', 'scanner.pos <= scanner.end + 1', 'scanner.end == len(source)',
                            'same_str(scanner.string, source)', 'g_last_end <= scanner.pos'],
              'decreases': 'scanner.end + 1 - scanner.pos'},
          1: {'anchor': 'while not scanner.eof()',
              'invariant': ['wf(scanner)', 'scanner.pos <= scanner.end', 'scanner.end == len(source)',
                            'same_str(scanner.string, source)', 'g_last_end <= scanner.pos', 'len(name) >= 1',
                            'not found', 'start < scanner.pos'],
              'decreases': 'scanner.end - scanner.pos'}})

# ---------------------------------------------------------------------------------------
# __init__.py: match / balanced_outward (closures over pooled Tag objects, ghost g_last_end)
# ---------------------------------------------------------------------------------------
cls('emmet.html_matcher:Tag', fields={'name': 'str', 'start': 'int', 'end': 'int'})
cls('emmet.html_matcher:MatchedTag',
    fields={'name': 'str', 'attributes': 'list[AttributeToken]', 'open': 'tuple[int,int]', 'close': 'tuple[int,int]|None'})
cls('emmet.html_matcher:BalancedTag',
    fields={'name': 'str', 'open': 'tuple[int,int]', 'close': 'tuple[int,int]|None'})
cls('emmet.html_matcher.utils:ScannerOptions', fields={'xml': 'any', 'special': 'any', 'empty': 'any'})
for _k in ('Tag', 'MatchedTag', 'BalancedTag'):
    fn('emmet.html_matcher:%s.__init__' % _k, inline=True, props=P)
fn('emmet.html_matcher.utils:ScannerOptions.__init__', props=P, trusted=True,
   params={'self': 'ScannerOptions', 'options': 'any'}, returns='none',
   requires=[], ensures=[], modifies=['self.xml', 'self.special', 'self.empty'],
   note='reads the user supplied options dict (arbitrary): the three fields are opaque values')
fn('emmet.html_matcher:alloc_tag', inline=True, props=P)
fn('emmet.html_matcher:release_tag', inline=True, props=P)
fn('emmet.html_matcher:is_self_close', inline=True, props=P)

fn('emmet.html_matcher:get_attributes', props=P,
   params={'source': 'str', 'start': 'int', 'end': 'int', 'name': 'str|None'}, returns='list[AttributeToken]',
   requires=['0 <= start', 'start <= end', 'end <= len(source)'],
   ensures=['fresh(result)',
            # every range field shifted by exactly `start`, each once: the ranges now refer to `source`
            'forall(0, len(result), lambda i: fresh(result[i]) and attr_ok(result[i], start, end))'],
   modifies=[], allocates=True,
   loops={0: {'anchor': 'for attr in attrs', 'writes': 'fresh',
              'invariant': ['_i0 <= len(attrs)', 'fresh(attrs)', 'len(attrs) == len(_seq0)', 'attrs is _seq0',
                            'forall(0, len(attrs), lambda i: fresh(attrs[i]))',
                            'forall(0, len(attrs), lambda i: forall(0, i, lambda j: attrs[i] is not attrs[j]))',
                            'forall(0, _i0, lambda i: attr_ok(attrs[i], start, end))',
                            'forall(_i0, len(attrs), lambda i: attr_ok(attrs[i], 0, end - start))']}})

define('tag_ok', ['t', 'n'], '0 <= t.start and t.start < t.end and t.end <= n')
define('open_close_ok', ['o', 'c', 'n'],
       '0 <= o[0] and o[0] < o[1] and o[1] <= n and (c is None or (o[1] <= c[0] and c[0] < c[1] and c[1] <= n))')

HCB_PARAMS = {'name': 'str', 'elem_type': 'int', 'start': 'int', 'end': 'int'}
HCB_REQ = ['0 <= start', 'start < end', 'end <= len(source)', 'g_last_end <= start']
# match(): everything scan() promises about a tag
HCB_REQ_FULL = list(HTML_CALLBACK['requires'])
# the text of an opening / self-closing tag `<name ...>` resp. of a closing tag `</name>` of `source`
define('open_shape', ['s', 'e', 'nm', 'source'],
       "source[s] == '<' and source[e - 1] == '>' and len(nm) >= 1 and s + 1 + len(nm) < e and "
       'occurs_at(source, s + 1, nm)')
define('close_shape', ['s', 'e', 'nm', 'source'],
       "source[s] == '<' and source[s + 1] == '/' and source[e - 1] == '>' and s + 2 + len(nm) < e and "
       'occurs_at(source, s + 2, nm)')

# C09 "ranges slice exactly to the element's tags", for a MatchedTag r (or None).  The quantifiers are outermost
# (an empty range stands for "no result" / "no closing tag"): a universal under a disjunction is poorly triggered
MATCH_SHAPE = [
    "%(r)s is None or (source[%(r)s.open[0]] == '<' and source[%(r)s.open[1] - 1] == '>' and len(%(r)s.name) >= 1 "
    " and %(r)s.open[0] + 1 + len(%(r)s.name) < %(r)s.open[1])",
    '%(r)s is None or occurs_at(source, %(r)s.open[0] + 1, %(r)s.name)',
    "%(r)s is None or %(r)s.close is None or (source[%(r)s.close[0]] == '<' and source[%(r)s.close[0] + 1] == '/' "
    " and source[%(r)s.close[1] - 1] == '>' and %(r)s.close[0] + 2 + len(%(r)s.name) < %(r)s.close[1])",
    '%(r)s is None or %(r)s.close is None or occurs_at(source, %(r)s.close[0] + 2, %(r)s.name)']

HM_CAP = {'pool': 'list[Tag]', 'stack': 'list[Tag]', 'result': 'list[MatchedTag|None]', 'options': 'ScannerOptions',
          'pos': 'int', 'source': 'str', 'g_last_end': 'int'}
HM_INV = ['len(result) == 1', 'pool is not stack',
          # pooling discipline: a recycled Tag is not one that is still waiting on the stack
          'forall(0, len(pool), lambda i: forall(0, i, lambda j: pool[i] is not pool[j]))',
          'forall(0, len(stack), lambda i: forall(0, len(pool), lambda j: stack[i] is not pool[j]))',
          'forall(0, len(stack), lambda i: forall(0, i, lambda j: stack[i] is not stack[j]))',
          'owned(pool) and owned(stack) and owned(result)',
          'forall(0, len(stack), lambda i: owned(stack[i]))', 'forall(0, len(pool), lambda i: owned(pool[i]))',
          'result[0] is None or owned(result[0])',
          # every open tag on the stack ended before anything reported later starts
          'forall(0, len(stack), lambda i: tag_ok(stack[i], len(source)) and stack[i].end <= g_last_end)',
          'result[0] is None or (open_close_ok(result[0].open, result[0].close, len(source)) and '
          ' result[0].open[0] < pos and pos < (result[0].open[1] if result[0].close is None else result[0].close[1]))',
          # every open tag waiting on the stack is the text `<name ...>` of the source
          "forall(0, len(stack), lambda i: len(stack[i].name) >= 1 and source[stack[i].start] == '<' and "
          " source[stack[i].end - 1] == '>' and stack[i].start + 1 + len(stack[i].name) < stack[i].end)",
          'forall(0, len(stack), lambda i: occurs_at(source, stack[i].start + 1, stack[i].name))',
          # C09: the ranges slice exactly to the element's tags, and the attribute ranges lie in the open tag
          ] + [c % {'r': 'result[0]'} for c in MATCH_SHAPE] + [
          'result[0] is None or (owned(result[0].attributes) and forall(0, len(result[0].attributes), lambda i: '
          ' attr_ok(result[0].attributes[i], result[0].open[0], result[0].open[1])))']

fn('emmet.html_matcher:match.<locals>.scan_callback', props=P,
   params=HCB_PARAMS, returns='bool|None', captures=HM_CAP,
   requires=HCB_REQ_FULL, closure_invariant=HM_INV, modifies=['owned'],
   ghost_update=[('g_last_end', 'end')])

fn('emmet.html_matcher:match', props=P,
   params={'source': 'str', 'pos': 'int', 'opt': 'any'}, returns='MatchedTag|None',
   requires=[],
   ensures=['result is None or (open_close_ok(result.open, result.close, len(source)) and '
            ' result.open[0] < pos and pos < (result.open[1] if result.close is None else result.close[1]))',
            ] + [c % {'r': 'result'} for c in MATCH_SHAPE] + [
            'result is None or forall(0, len(result.attributes), lambda i: '
            ' attr_ok(result.attributes[i], result.open[0], result.open[1]))'],
   modifies=[], allocates=True,
   locals={'pool': 'list[Tag]', 'stack': 'list[Tag]', 'result': 'list[MatchedTag|None]'})

HO_CAP = {'pool': 'list[Tag]', 'stack': 'list[Tag]', 'result': 'list[BalancedTag]', 'options': 'ScannerOptions',
          'pos': 'int', 'source': 'str', 'g_last_end': 'int'}
define('btag_ok', ['b', 'n', 'pos'],
       'open_close_ok(b.open, b.close, n) and b.open[0] < pos and pos < (b.open[1] if b.close is None else b.close[1])')
define('bend', ['b'], 'b.open[1] if b.close is None else b.close[1]')
NESTED = 'forall(0, len(result) - 1, lambda i: result[i + 1].open[0] < result[i].open[0] and bend(result[i]) < bend(result[i + 1]))'
HO_INV = ['pool is not stack', 'owned(pool) and owned(stack) and owned(result)',
          # pooling discipline: a Tag object is in at most one place
          'forall(0, len(stack), lambda i: forall(0, i, lambda j: stack[i] is not stack[j]))',
          'forall(0, len(pool), lambda i: forall(0, i, lambda j: pool[i] is not pool[j]))',
          'forall(0, len(stack), lambda i: forall(0, len(pool), lambda j: stack[i] is not pool[j]))',
          # open tags on the stack are ordered and disjoint
          'forall(0, len(stack), lambda i: forall(0, i, lambda j: stack[j].end <= stack[i].start))',
          'forall(0, len(result), lambda i: bend(result[i]) <= g_last_end)',
          # an open tag either started after a listed entry ended, or ended before it started
          'forall(0, len(stack), lambda i: forall(0, len(result), lambda j: '
          '  stack[i].start >= bend(result[j]) or stack[i].end <= result[j].open[0]))',
          # successive entries strictly contain each other (C16, third sentence)
          NESTED,
          'forall(0, len(stack), lambda i: owned(stack[i]))', 'forall(0, len(pool), lambda i: owned(pool[i]))',
          'forall(0, len(result), lambda i: owned(result[i]))',
          'forall(0, len(stack), lambda i: tag_ok(stack[i], len(source)) and stack[i].end <= g_last_end)',
          # every listed entry is well-formed and strictly contains the position
          'forall(0, len(result), lambda i: btag_ok(result[i], len(source), pos))']

# C09/C16: every listed entry slices exactly to its tags: `<name ...>` and, when paired, `</name>`
BAL_SHAPE = ['forall(0, len(%(l)s), lambda i: open_shape(%(l)s[i].open[0], %(l)s[i].open[1], %(l)s[i].name, source))',
             'forall(0, len(%(l)s), lambda i: %(l)s[i].close is None or '
             ' close_shape(%(l)s[i].close[0], %(l)s[i].close[1], %(l)s[i].name, source))']
HO_INV = HO_INV + [
    'forall(0, len(stack), lambda i: open_shape(stack[i].start, stack[i].end, stack[i].name, source))',
] + [c % {'l': 'result'} for c in BAL_SHAPE]

fn('emmet.html_matcher:balanced_outward.<locals>.scan_callback', props=P,
   params=HCB_PARAMS, returns='bool|None', captures=HO_CAP,
   requires=HCB_REQ_FULL, closure_invariant=HO_INV, modifies=['owned'],
   ghost_update=[('g_last_end', 'end')])

fn('emmet.html_matcher:balanced_outward', props=P,
   params={'source': 'str', 'pos': 'int', 'opt': 'any'}, returns='list[BalancedTag]',
   requires=[],
   ensures=['forall(0, len(result), lambda i: btag_ok(result[i], len(source), pos))', NESTED]
           + [c % {'l': 'result'} for c in BAL_SHAPE],
   modifies=[], allocates=True,
   locals={'pool': 'list[Tag]', 'stack': 'list[Tag]', 'result': 'list[BalancedTag]'})
