"""Contracts: emmet/abbreviation/{convert,stringify}.py, emmet/markup/*  (C02, C01, C03, C04, C14)."""
from pyvc.contracts import fn, cls, define, glob, rec

A = 'emmet.abbreviation'

cls(A + '.convert:ConvertState',
    fields={'inserted': 'bool', 'text': 'any', 'clean_text': 'any', 'repeat_guard': 'int', 'repeaters': 'list[Repeater]',
            'variables': 'any', '_text_inserted': 'bool'})

# C02, second sentence, taken from the statement: inside copy i (1-based) of N the counter is
#   forward:   start + i - 1          count-down:  start + N - i   ("the last copy gets the start value")
# and it is 1 when no repeater is active; `$$$` pads with zeros to the number of `$`.
# The running repeater stores the 0-based copy number in .value and N in .count.
define('spec_counter', ['i', 'n', 'base', 'reverse'], '(base + n - i) if reverse else (base + i - 1)')
define('padded', ['r', 'v', 'size'],
       'len(r) == max(size, len(int_str(v))) and '
       "forall(0, len(r) - len(int_str(v)), lambda k: r[k] == '0') and "
       'forall(0, len(int_str(v)), lambda k: r[len(r) - len(int_str(v)) + k] == int_str(v)[k])')

fn(A + '.stringify:RepeaterNumber', props=['C02'],
   params={'token': 'RepeaterNumber', 'state': 'ConvertState'}, returns='str',
   # the tokenizer never produces a negative parent count (repeater_number postcondition)
   requires=['token.parent >= 0'],
   ensures=['implies(len(state.repeaters) == 0, padded(result, 1, token.size))',
            'implies(len(state.repeaters) > 0 and token.parent == 0, '
            ' padded(result, spec_counter(state.repeaters[len(state.repeaters) - 1].value + 1, '
            '                             state.repeaters[len(state.repeaters) - 1].count, token.base, token.reverse), token.size))'],
   modifies=[])

# ---------------------------------------------------------------------------------------
# implicit tag names (C01, last sentence)
# ---------------------------------------------------------------------------------------
M = 'emmet.markup'
cls(A + '.convert:Abbreviation', fields={'type': 'str', 'children': 'list[AbbreviationNode]'})
cls(A + '.convert:AbbreviationNode',
    fields={'type': 'str', 'name': 'str|None', 'value': 'list[str|Field]|None', 'repeat': 'Repeater|None', 'attributes': 'any',
            'children': 'list[AbbreviationNode]', 'self_closing': 'any'})
cls('emmet.config:Config',
    fields={'type': 'any', 'syntax': 'any', 'variables': 'map', 'snippets': 'map', 'options': 'map',
            'user_config': 'map', 'context': 'any', 'cache': 'any'})
fn('emmet.config:Config.get', trusted=True, props=['C01', 'C20', 'C08'],
   params={'self': 'Config', 'key': 'str'}, returns='any', requires=[],
   # for a key that is not an attribute of Config ('text', 'maxRepeat', ...) the value comes from user_config
   ensures=["implies(key == 'text', same(result, (at(self.user_config, 'text') if has(self.user_config, 'text') else None)))"],
   modifies=[],
   note='uses dir()/__getattribute__ reflection: opaque read of a configuration attribute')
fn(M + '.implicit_tag:lowercase', inline=True, pure=True, props=['C01'])
fn('emmet.output_stream:is_inline', inline=True, pure=True, props=['C01'])

define('is_node', ['x'], 'isinstance(x, AbbreviationNode)')

fn(M + '.implicit_tag:get_parent_element', props=['C01'],
   params={'ancestors': 'list[AbbreviationNode|Abbreviation]'}, returns='AbbreviationNode|None',
   requires=[],
   # the closest element node: the last AbbreviationNode of the ancestor list
   ensures=['implies(result is None, forall(0, len(ancestors), lambda k: not is_node(ancestors[k])))',
            'implies(result is not None, exists(0, len(ancestors), lambda j: ancestors[j] is result and '
            '        forall(j + 1, len(ancestors), lambda k: not is_node(ancestors[k]))))'],
   modifies=[],
   loops={0: {'anchor': 'while i >= 0',
              'invariant': ['-1 <= i', 'i <= len(ancestors) - 1',
                            'forall(i + 1, len(ancestors), lambda k: not is_node(ancestors[k]))'],
              'decreases': 'i + 1'}})

# the documented implicit names, taken from the statement; p is the lower-cased name of the closest
# element ancestor (or the context name).  Parents the code maps beyond the statement (colgroup, audio,
# video, object, map) are left unconstrained.
define('implicit_ok', ['name', 'p', 'config'],
       "implies(p == 'ul' or p == 'ol', name == 'li') and "
       "implies(p == 'table' or p == 'tbody' or p == 'thead' or p == 'tfoot', name == 'tr') and "
       "implies(p == 'tr', name == 'td') and "
       "implies(p == 'select' or p == 'optgroup', name == 'option') and "
       "implies(p == 'p', name == 'span') and "
       "implies(not (p in ELEMENT_MAP), name == ('span' if is_inline(p, config) else 'div'))")

fn(M + '.implicit_tag:resolve_implicit_tag', props=['C01'],
   params={'node': 'AbbreviationNode', 'ancestors': 'list[AbbreviationNode|Abbreviation]', 'config': 'Config'},
   returns='none',
   requires=[],
   # `parent` and `parent_name` are the function's own locals: the closest element ancestor (callee contract
   # of get_parent_element) and its lower-cased name (or the lower-cased context name)
   lemmas=['parent is None or exists(0, len(ancestors), lambda j: ancestors[j] is parent and '
           '       forall(j + 1, len(ancestors), lambda k: not is_node(ancestors[k])))'],
   ensures=['node.name is not None',
            "implies(parent_name == 'ul' or parent_name == 'ol', node.name == 'li')",
            "implies(parent_name == 'table' or parent_name == 'tbody' or parent_name == 'thead' or parent_name == 'tfoot', node.name == 'tr')",
            "implies(parent_name == 'tr', node.name == 'td')",
            "implies(parent_name == 'select' or parent_name == 'optgroup', node.name == 'option')",
            "implies(parent_name == 'p', node.name == 'span')",
            "implies(not (parent_name in ELEMENT_MAP), node.name == ('span' if is_inline(parent_name, config) else 'div'))"],
   modifies=['node.name'], allocates=True)

# ---------------------------------------------------------------------------------------
# attribute merging (C03)
# ---------------------------------------------------------------------------------------
cls(A + '.convert:AbbreviationAttribute',
    fields={'name': 'any', 'value': 'any', 'value_type': 'str', 'boolean': 'bool', 'implied': 'bool', 'multiple': 'any'})

fn(M + '.attributes:merge_declarations', props=['C03'],
   params={'dest': 'AbbreviationAttribute', 'src': 'AbbreviationAttribute', 'config': 'Config'},
   returns='AbbreviationAttribute',
   requires=['dest is not src'],
   # "for any other repeated attribute the last value wins (the first one under output.reverseAttributes)";
   # the later mention wins also when it has no value (a name without value gets an empty value)
   ensures=['result is dest',
            "implies(not config.options.get('output.reverseAttributes'), same(dest.value, src.value))",
            "implies(config.options.get('output.reverseAttributes'), same(dest.value, old(dest.value)))",
            # implied / boolean are sticky, an expression type is kept
            'dest.implied == (old(dest.implied) or src.implied)',
            'dest.boolean == (old(dest.boolean) or src.boolean)',
            "implies(old(dest.value_type) == 'expression', dest.value_type == 'expression')",
            "implies(old(dest.value_type) != 'expression', same_str(dest.value_type, src.value_type))"],
   modifies=['dest.name', 'dest.value', 'dest.implied', 'dest.boolean', 'dest.value_type'])

# ---------------------------------------------------------------------------------------
# snippet resolution: cycle guard and stack discipline (C14)
# ---------------------------------------------------------------------------------------
fn(A + ':parse', props=['C14'], trusted=True,
   params={'abbr': 'any', 'options': 'any'}, returns='Abbreviation',
   requires=[], ensures=['fresh(result)'], modifies=[], allocates=True,
   note='the whole tokenizer/parser/converter pipeline applied to a snippet body: only "returns a fresh tree" is used')
fn(M + '.snippets:merge', inline=True, props=['C14'])
fn(M + '.snippets:walk_resolve', props=['C14'], trusted=True,
   params={'node': 'AbbreviationNode|Abbreviation', 'resolve': 'fn', 'config': 'Config'}, returns='any',
   requires=[], ensures=[], modifies=['*'],
   callback={'param': 'resolve', 'args': ['child'], 'requires': [], 'returns': 'any'},
   note='no functional postcondition is assumed (frame * only); what carries C14 across it are the closure '
        'invariant and the stable clauses of resolve()')

define('distinct_ids', ['l'], 'forall(0, len(l), lambda i: forall(0, i, lambda j: not same(l[i], l[j])))')

fn(M + '.snippets:resolve_snippets.<locals>.resolve', props=['C14'],
   params={'child': 'AbbreviationNode'}, returns='Abbreviation|None',
   captures={'stack': 'list[any]', 'config': 'Config', 'is_reversed': 'any', 'abbr': 'Abbreviation'},
   requires=[],
   # cycle guard: a snippet is pushed only when it is not on the stack, so the stack never holds a snippet twice
   # (hence, by pigeonhole, nesting is no deeper than the number of distinct snippets)
   closure_invariant=['distinct_ids(stack)'],
   # balanced push/pop across the recursive resolution: every invocation leaves the stack exactly as it found it
   stable=['len(stack) == old(len(stack))',
           'forall(0, len(stack), lambda i: same(stack[i], old(stack[i])))'],
   modifies=['*'],
   loops={0: {'anchor': 'for top_node in snippet_abbr.children',
              'invariant': ['distinct_ids(stack)', 'len(stack) == old(len(stack))',
                            'forall(0, len(stack), lambda i: same(stack[i], old(stack[i])))']}})

# ---------------------------------------------------------------------------------------
# markup.parse: the caller's wrap text is removed during resolution and restored on EVERY exit (C08)
# ---------------------------------------------------------------------------------------
cls('builtins:Exception', alias='PyException', fields={})
UC_SAME = ('forall_keys(lambda k: keyis(k, "text") or (has(config.user_config, k) == old(has(config.user_config, k)) and '
           '                                         same(at(config.user_config, k), old(at(config.user_config, k)))))')
UNTOUCHED = ['config.user_config is old(config.user_config)',
             'forall_keys(lambda k: has(config.user_config, k) == old(has(config.user_config, k)) and '
             '                       same(at(config.user_config, k), old(at(config.user_config, k))))']
fn(M + '.snippets:resolve_snippets', props=['C08'], trusted=True,
   params={'abbr': 'any', 'config': 'Config'}, returns='any',
   requires=[], ensures=UNTOUCHED, ensures_on_raise=UNTOUCHED, raises=['PyException'], modifies=['*'],
   note='may raise a parse error from a user snippet; assumed not to touch the caller\'s user_config')
fn(M + '.utils:walk', props=['C08'], trusted=True,
   params={'node': 'any', 'fn': 'any', 'state': 'Config'}, returns='none',
   requires=[], ensures=['state.user_config is old(state.user_config)',
                         'forall_keys(lambda k: has(state.user_config, k) == old(has(state.user_config, k)) and '
                         '                       same(at(state.user_config, k), old(at(state.user_config, k))))'],
   ensures_on_raise=['state.user_config is old(state.user_config)',
                     'forall_keys(lambda k: has(state.user_config, k) == old(has(state.user_config, k)) and '
                     '                       same(at(state.user_config, k), old(at(state.user_config, k))))'],
   raises=['PyException'], modifies=['*'],
   note='applies the node transforms; may raise; assumed not to touch the caller\'s user_config')

RESTORED = [# the value found on entry is back, whatever happened in between; a key that was absent is absent or None
            "implies(old(has(config.user_config, 'text')), has(config.user_config, 'text') and "
            "        same(at(config.user_config, 'text'), old(at(config.user_config, 'text'))))",
            "implies(not old(has(config.user_config, 'text')), not has(config.user_config, 'text') or "
            "        same(at(config.user_config, 'text'), None))",
            'config.user_config is old(config.user_config)', UC_SAME]
fn(M + ':parse', props=['C08'],
   params={'abbr': 'any', 'config': 'Config'}, returns='any',
   requires=[],
   ensures=RESTORED, ensures_on_raise=RESTORED, raises=['PyException'],
   modifies=['*'], allocates=True,
   locals={'bem_lookup': 'map'})
