"""Contracts: emmet/abbreviation/{convert,stringify}.py, emmet/markup/*  (C02, C01, C03, C04, C14)."""
from pyvc.contracts import fn, cls, define, glob, rec

A = 'emmet.abbreviation'

cls(A + '.convert:ConvertState',
    fields={'inserted': 'bool', 'text': 'any', 'clean_text': 'any', 'repeat_guard': 'int', 'repeaters': 'list[Repeater]',
            'variables': 'any', '_text_inserted': 'bool'})

# C02, second sentence, taken from the statement: inside copy i (1-based) of N the counter is
#   forward:   start + i - 1          count-down:  start + N - i   ("the last copy gets the start value")
# and it is 1 when no repeater is active; `$$$` pads with zeros to the number of `$`.
# The running repeater stores the 0-based copy number in .value and N in .count.
define('spec_counter', ['i', 'n', 'base', 'reverse'], '(base + n - i) if reverse else (base + i - 1)')
define('padded', ['r', 'v', 'size'],
       'len(r) == max(size, len(int_str(v))) and '
       "forall(0, len(r) - len(int_str(v)), lambda k: r[k] == '0') and "
       'forall(0, len(int_str(v)), lambda k: r[len(r) - len(int_str(v)) + k] == int_str(v)[k])')

fn(A + '.stringify:RepeaterNumber', props=['C02'],
   params={'token': 'RepeaterNumber', 'state': 'ConvertState'}, returns='str',
   # the tokenizer never produces a negative parent count (repeater_number postcondition)
   requires=['token.parent >= 0'],
   ensures=['implies(len(state.repeaters) == 0, padded(result, 1, token.size))',
            'implies(len(state.repeaters) > 0 and token.parent == 0, '
            ' padded(result, spec_counter(state.repeaters[len(state.repeaters) - 1].value + 1, '
            '                             state.repeaters[len(state.repeaters) - 1].count, token.base, token.reverse), token.size))'],
   modifies=[])
