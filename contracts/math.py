"""Contracts: emmet/math_expression/extract.py  (C19, extract clause)."""
from pyvc.contracts import fn, cls, define, rec, glob

P = ['C19']
X = 'emmet.math_expression.extract'
MP = 'emmet.math_expression.parser'

cls(X + ':BackwardScanner', alias='MathBackwardScanner', fields={'text': 'str', 'pos': 'int'})
fn(X + ':BackwardScanner.__init__', inline=True, props=P)
fn(X + ':BackwardScanner.prev', inline=True, pure=True, props=P)
fn(X + ':BackwardScanner.cur', inline=True, pure=True, props=P)
for _p in ('is_sign', 'is_positive_sign', 'is_negative_sign', 'is_operator'):
    fn('%s:%s' % (MP, _p), inline=True, pure=True, props=P)

rec('MathOpt', {'lookAhead': 'any', 'whitespace': 'any'})
rec('MathOptIn', {'lookAhead': 'any', 'whitespace': 'any'}, optional=True)

# the characters an extracted range may contain (C19, last sentence)
define('expr_char', ['c'], "is_number(c) or c == '.' or is_operator(c) or c == '(' or c == ')' or is_space(c)")

fn(X + ':number', props=P,
   params={'scanner': 'MathBackwardScanner'}, returns='bool',
   requires=['0 <= scanner.pos', 'scanner.pos <= len(scanner.text)'],
   ensures=['0 <= scanner.pos', 'scanner.pos <= old(scanner.pos)',
            'result == (scanner.pos < old(scanner.pos))',
            "forall(scanner.pos, old(scanner.pos), lambda i: is_number(scanner.text[i]) or scanner.text[i] == '.')"],
   modifies=['scanner.pos'],
   locals={'dot': 'bool'},
   loops={0: {'anchor': 'while scanner.pos >= 0',
              'invariant': ['0 <= scanner.pos', 'scanner.pos < old(scanner.pos)',
                            "forall(scanner.pos, old(scanner.pos), lambda i: is_number(scanner.text[i]) or scanner.text[i] == '.')"],
              'decreases': 'scanner.pos'}})

fn(X + ':extract', props=P,
   params={'text': 'str', 'pos': 'int|None', 'options': 'rec:MathOptIn|None'}, returns='tuple[int,int]|None',
   # positions are offsets into the text (the sibling extractor clamps; this one is called with a caret offset)
   requires=['pos is None or (0 <= pos and pos <= len(text))'],
   ensures=['result is None or (0 <= result[0] and result[0] <= result[1] and result[1] <= len(text))',
            # only digits, dots, operators, parentheses and spaces
            'result is None or forall(result[0], result[1], lambda i: expr_char(text[i]))',
            # the range ends at the look-ahead adjusted position: at or after the given one, crossing only ) and spaces
            'result is None or (len(text) if old(pos) is None else old(pos)) <= result[1]',
            'result is None or forall((len(text) if old(pos) is None else old(pos)), result[1], '
            "                         lambda i: text[i] == ')' or is_space(text[i]))"],
   modifies=[], allocates=True,
   locals={'opt': 'rec:MathOpt'},
   loops={0: {'anchor': 'while scanner.pos < l',
              'invariant': ['pos <= scanner.pos', 'scanner.pos <= l', 'l == len(text)', 'same_str(scanner.text, text)',
                            'fresh(scanner)', 'pos is not None', '0 <= pos',
                            "forall(pos, scanner.pos, lambda i: text[i] == ')' or is_space(text[i]))"],
              'decreases': 'l - scanner.pos'},
          1: {'anchor': 'while scanner.pos >= 0',
              'invariant': ['0 <= scanner.pos', 'scanner.pos <= end', 'end <= len(text)', 'same_str(scanner.text, text)',
                            'fresh(scanner)', 'braces >= 0', 'pos is not None', 'pos <= end',
                            "forall(pos, end, lambda i: text[i] == ')' or is_space(text[i]))",
                            'forall(scanner.pos, end, lambda i: expr_char(text[i]))'],
              'decreases': 'scanner.pos + 1'},
          2: {'anchor': 'while scanner.pos < end and is_space(scanner.cur())',
              'invariant': ['0 <= scanner.pos', 'scanner.pos <= end', 'end <= len(text)', 'same_str(scanner.text, text)',
                            'pos is not None', 'pos <= end',
                            "forall(pos, end, lambda i: text[i] == ')' or is_space(text[i]))",
                            'forall(scanner.pos, end, lambda i: expr_char(text[i]))'],
              'decreases': 'end - scanner.pos'}})

# ---------------------------------------------------------------------------------------
# parser.py: number recognition, the precedence table, and exception freedom of parse()
# ---------------------------------------------------------------------------------------
cls(MP + ':Token', alias='MathToken', fields={'type': 'str', 'value': 'any', 'priority': 'int'})
fn(MP + ':Token.__init__', inline=True, props=P)
cls(MP + ':MathExpressionException', fields={'message': 'str', 'pos': 'int'})
fn(MP + ':MathExpressionException.__init__', props=P, trusted=True,
   params={'self': 'MathExpressionException', 'message': 'str', 'scanner': 'Scanner|None'}, returns='none',
   requires=[], ensures=['implies(scanner is not None, self.pos == scanner.pos)'],
   modifies=['self.message', 'self.pos'],
   note='string formatting of the message and the super().__init__ call are not modelled; only the position field')

fn(MP + ':consume_number', props=P,
   params={'scanner': 'Scanner'}, returns='bool',
   requires=['wf(scanner)', 'scanner.pos <= scanner.end'],
   ensures=['result == (scanner.pos != old(scanner.pos))', 'old(scanner.pos) <= scanner.pos', 'scanner.pos <= scanner.end',
            'scanner.start == old(scanner.start)',
            # d+ | d+.d+ | .d+  (never a sign: signs are operators here; never a trailing dot)
            'implies(result, numshape(scanner.string, old(scanner.pos), scanner.pos))',
            "implies(result, scanner.string[old(scanner.pos)] != '-' and scanner.string[scanner.pos - 1] != '.')"],
   # witness for the existential in numshape: no sign; the integer part ends where the first run of digits ends
   ghost={'g_m': ('int', '-1')},
   ghost_code={'call scanner.eat_while(is_number)': ['g_m = scanner.pos if g_m < 0 else g_m']},
   lemmas=['implies(scanner.pos != start, numshape(scanner.string, start, scanner.pos, start, '
           "        (start if scanner.string[start] == '.' else g_m)))"],
   modifies=['scanner.pos'])

# the precedence table of C19: `*` before `+`/`-`, `/` and `\` before `*`, unary minus as tight as `/`;
# every level of parentheses adds 10 (passed in as `priority`)
fn(MP + ':op1', props=P,
   params={'value': 'str', 'priority': 'int'}, returns='MathToken',
   requires=[],
   ensures=['fresh(result)', "result.type == 'op1'", 'same(result.value, value)',
            "result.priority == old(priority) + (2 if value == '-' else 0)"],
   modifies=[], allocates=True)

fn(MP + ':op2', props=P,
   params={'value': 'str', 'priority': 'int'}, returns='MathToken',
   requires=[],
   ensures=['fresh(result)', "result.type == 'op2'", 'same(result.value, value)',
            "result.priority == old(priority) + (1 if value == '*' else (2 if (value == '/' or value == '\\\\') else 0))"],
   modifies=[], allocates=True)

fn(MP + ':number', props=P,
   params={'value': 'str', 'priority': 'int'}, returns='MathToken',
   requires=['numshape(value, 0, len(value))'],
   ensures=['fresh(result)', "result.type == 'num'", 'result.priority == priority'],
   modifies=[], allocates=True)

glob(MP + ':nullary', 'MathToken', invariant=["nullary.type == 'null'", 'nullary.priority == 0'])

define('math_tok', ['t'], "t.type == 'num' or t.type == 'op1' or t.type == 'op2' or t.type == 'null'")

fn(MP + ':order_tokens', props=P,
   params={'tokens': 'list[MathToken]'}, returns='list[MathToken]|None',
   requires=['forall(0, len(tokens), lambda i: math_tok(tokens[i]))'],
   ensures=['result is None or fresh(result)',
            # execution order is a rearrangement: nothing dropped, nothing invented
            'result is None or len(result) == len(tokens)'],
   modifies=[], allocates=True,
   locals={'operators': 'list[MathToken]', 'operands': 'list[MathToken]'},
   loops={0: {'anchor': 'for t in tokens',
              'invariant': ['_i0 <= len(tokens)', 'fresh(operators)', 'fresh(operands)', 'operators is not operands',
                            'len(operators) + len(operands) == _i0', 'n_operators >= 0'],},
          1: {'anchor': 'while operators and t.type != TokenType.Op1',
              'invariant': ['_i0 <= len(tokens)', 'fresh(operators)', 'fresh(operands)', 'operators is not operands',
                            'len(operators) + len(operands) == _i0 - 1', 'n_operators >= 0'],
              'decreases': 'len(operators)'}})

fn(MP + ':parse', props=P,
   params={'expr': 'str'}, returns='list[MathToken]',
   requires=[],
   ensures=['fresh(result)'],
   # the only way out besides a result is the parser's own error, at a position inside the expression
   raises=['MathExpressionException'], ensures_on_raise=['0 <= exc.pos', 'exc.pos <= len(expr)'],
   modifies=[], allocates=True,
   locals={'tokens': 'list[MathToken]'},
   # ghost: the number of parentheses opened and not yet closed in the text consumed so far
   ghost={'g_depth': ('int', '0')},
   ghost_code={'call scanner.eat(Operator.LeftParenthesis)': ['g_depth = g_depth + (1 if result else 0)'],
               'call scanner.eat(Operator.RightParenthesis)': ['g_depth = g_depth - (1 if result else 0)']},
   loops={0: {'anchor': 'while not scanner.eof()', 'writes': 'fresh',
              'invariant': ['wf(scanner)', 'scanner.pos <= scanner.end', 'scanner.end == len(expr)', 'fresh(scanner)',
                            'same_str(scanner.string, expr)', 'fresh(tokens)', 'priority >= 0',
                            # every open parenthesis adds 10 to the priority of the operators inside it
                            'priority == 10 * g_depth',
                            'forall(0, len(tokens), lambda i: math_tok(tokens[i]))',
                            # Primary|LParen|Sign, Operator|RParen, Primary|LParen|Sign|NullaryCall
                            'expected == 21 or expected == 10 or expected == 53'],
              'decreases': 'scanner.end - scanner.pos'}})
