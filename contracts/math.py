"""Contracts: emmet/math_expression/extract.py  (C19, extract clause)."""
from pyvc.contracts import fn, cls, define, rec

P = ['C19']
X = 'emmet.math_expression.extract'
MP = 'emmet.math_expression.parser'

cls(X + ':BackwardScanner', alias='MathBackwardScanner', fields={'text': 'str', 'pos': 'int'})
fn(X + ':BackwardScanner.__init__', inline=True, props=P)
fn(X + ':BackwardScanner.prev', inline=True, pure=True, props=P)
fn(X + ':BackwardScanner.cur', inline=True, pure=True, props=P)
for _p in ('is_sign', 'is_positive_sign', 'is_negative_sign', 'is_operator'):
    fn('%s:%s' % (MP, _p), inline=True, pure=True, props=P)

rec('MathOpt', {'lookAhead': 'any', 'whitespace': 'any'})
rec('MathOptIn', {'lookAhead': 'any', 'whitespace': 'any'}, optional=True)

# the characters an extracted range may contain (C19, last sentence)
define('expr_char', ['c'], "is_number(c) or c == '.' or is_operator(c) or c == '(' or c == ')' or is_space(c)")

fn(X + ':number', props=P,
   params={'scanner': 'MathBackwardScanner'}, returns='bool',
   requires=['0 <= scanner.pos', 'scanner.pos <= len(scanner.text)'],
   ensures=['0 <= scanner.pos', 'scanner.pos <= old(scanner.pos)',
            'result == (scanner.pos < old(scanner.pos))',
            "forall(scanner.pos, old(scanner.pos), lambda i: is_number(scanner.text[i]) or scanner.text[i] == '.')"],
   modifies=['scanner.pos'],
   locals={'dot': 'bool'},
   loops={0: {'anchor': 'while scanner.pos >= 0',
              'invariant': ['0 <= scanner.pos', 'scanner.pos < old(scanner.pos)',
                            "forall(scanner.pos, old(scanner.pos), lambda i: is_number(scanner.text[i]) or scanner.text[i] == '.')"],
              'decreases': 'scanner.pos'}})

fn(X + ':extract', props=P,
   params={'text': 'str', 'pos': 'int|None', 'options': 'rec:MathOptIn|None'}, returns='tuple[int,int]|None',
   # positions are offsets into the text (the sibling extractor clamps; this one is called with a caret offset)
   requires=['pos is None or (0 <= pos and pos <= len(text))'],
   ensures=['result is None or (0 <= result[0] and result[0] <= result[1] and result[1] <= len(text))',
            # only digits, dots, operators, parentheses and spaces
            'result is None or forall(result[0], result[1], lambda i: expr_char(text[i]))',
            # the range ends at the look-ahead adjusted position: at or after the given one, crossing only ) and spaces
            'result is None or (len(text) if old(pos) is None else old(pos)) <= result[1]',
            'result is None or forall((len(text) if old(pos) is None else old(pos)), result[1], '
            "                         lambda i: text[i] == ')' or is_space(text[i]))"],
   modifies=[], allocates=True,
   locals={'opt': 'rec:MathOpt'},
   loops={0: {'anchor': 'while scanner.pos < l',
              'invariant': ['pos <= scanner.pos', 'scanner.pos <= l', 'l == len(text)', 'same_str(scanner.text, text)',
                            'fresh(scanner)', 'pos is not None', '0 <= pos',
                            "forall(pos, scanner.pos, lambda i: text[i] == ')' or is_space(text[i]))"],
              'decreases': 'l - scanner.pos'},
          1: {'anchor': 'while scanner.pos >= 0',
              'invariant': ['0 <= scanner.pos', 'scanner.pos <= end', 'end <= len(text)', 'same_str(scanner.text, text)',
                            'fresh(scanner)', 'braces >= 0', 'pos is not None', 'pos <= end',
                            "forall(pos, end, lambda i: text[i] == ')' or is_space(text[i]))",
                            'forall(scanner.pos, end, lambda i: expr_char(text[i]))'],
              'decreases': 'scanner.pos + 1'},
          2: {'anchor': 'while scanner.pos < end and is_space(scanner.cur())',
              'invariant': ['0 <= scanner.pos', 'scanner.pos <= end', 'end <= len(text)', 'same_str(scanner.text, text)',
                            'pos is not None', 'pos <= end',
                            "forall(pos, end, lambda i: text[i] == ')' or is_space(text[i]))",
                            'forall(scanner.pos, end, lambda i: expr_char(text[i]))'],
              'decreases': 'end - scanner.pos'}})
