"""Contracts: emmet/output_stream.py  (C13, C12)."""
from pyvc.contracts import fn, cls, define, glob

P = ['C13']
O = 'emmet.output_stream'

glob(O + ':re_newline', 'any')

cls(O + ':OutputStream',
    fields={'options': 'map', '_value': 'list[any]', 'level': 'int', 'offset': 'int', 'line': 'int', 'column': 'int'})
fn(O + ':OutputStream.__init__', inline=True, props=P)

# representation invariant: the running offset is the total length of everything pushed so far, i.e. the
# position in the final string (''.join(_value)) of whatever is pushed next
define('os_ok', ['s'], 's.offset == total_len(s._value) and '
       # the stream is created with the merged options of a Config: the output.* keys are present
       "has(s.options, 'output.text') and has(s.options, 'output.field') and has(s.options, 'output.indent') and "
       "has(s.options, 'output.newline') and has(s.options, 'output.baseIndent')")

# the position a callback is given is exactly where the string it returns ends up
CB = {'requires': ['offset == total_len(self._value)', 'line == self.line', 'column == self.column'], 'returns': 'any'}

fn(O + ':OutputStream._push', props=P,
   params={'self': 'OutputStream', 'text': 'any'}, returns='none',
   requires=['os_ok(self)'],
   ensures=['os_ok(self)', 'self.offset == old(self.offset) + len(text)', 'self.column == old(self.column) + len(text)',
            'len(self._value) == old(len(self._value)) + 1', 'self.line == old(self.line)'],
   modifies=['self._value[*]', 'self.offset', 'self.column'])

fn(O + ':OutputStream.push', props=P,
   params={'self': 'OutputStream', 'text': 'any'}, returns='none',
   requires=['os_ok(self)'],
   ensures=['os_ok(self)', 'self.offset >= old(self.offset)', 'self.line == old(self.line)', 'self.level == old(self.level)'],
   modifies=['self._value[*]', 'self.offset', 'self.column'],
   calls={'process_text': CB})

fn(O + ':OutputStream.push_indent', props=P,
   params={'self': 'OutputStream', 'size': 'int|None'}, returns='none',
   requires=['os_ok(self)'],
   ensures=['os_ok(self)', 'self.offset >= old(self.offset)', 'self.line == old(self.line)', 'self.level == old(self.level)'],
   modifies=['self._value[*]', 'self.offset', 'self.column'])

fn(O + ':OutputStream.push_newline', props=P,
   params={'self': 'OutputStream', 'indent': 'bool|int|None'}, returns='none',
   requires=['os_ok(self)'],
   ensures=['os_ok(self)', 'self.offset >= old(self.offset)', 'self.line == old(self.line) + 1',
            'self.level == old(self.level)'],
   modifies=['self._value[*]', 'self.offset', 'self.column', 'self.line'])

fn(O + ':OutputStream.push_string', props=P,
   params={'self': 'OutputStream', 'value': 'any'}, returns='none',
   requires=['os_ok(self)'],
   ensures=['os_ok(self)', 'self.offset >= old(self.offset)', 'self.line >= old(self.line)', 'self.level == old(self.level)'],
   modifies=['self._value[*]', 'self.offset', 'self.column', 'self.line'], allocates=True,
   locals={'first': 'bool'},
   loops={0: {'anchor': 'for line in lines',
              'invariant': ['os_ok(self)', 'self.offset >= old(self.offset)', 'self.line >= old(self.line)',
                            'self.level == old(self.level)', '_i0 <= len(lines)', 'fresh(lines)', 'lines is _seq0']}})

fn(O + ':OutputStream.push_field', props=P,
   params={'self': 'OutputStream', 'index': 'any', 'placeholder': 'any'}, returns='none',
   requires=['os_ok(self)'],
   ensures=['os_ok(self)', 'self.offset >= old(self.offset)', 'self.line >= old(self.line)', 'self.level == old(self.level)'],
   modifies=['self._value[*]', 'self.offset', 'self.column', 'self.line'], allocates=True,
   calls={'field': CB})

# ---------------------------------------------------------------------------------------
# markup/format/utils.py, walk.py: tabstop numbering (C13)
# ---------------------------------------------------------------------------------------
F = 'emmet.markup.format'
cls(F + '.walk:WalkState',
    fields={'current': 'AbbreviationNode|None', 'parent': 'AbbreviationNode|None', 'ancestors': 'list[any]',
            'config': 'Config', 'out': 'OutputStream', 'field': 'int'})

define('is_field', ['t'], "kind_is(t, 'ref')")

# the default caret token list  [Field('', 0)]  (module constant of format/utils.py)
glob(F + '.utils:caret', 'list[str|Field]',
     invariant=["len(caret) == 1", "kind_is(caret[0], 'ref')", 'caret[0].index is not None', 'caret[0].index == 0'])
# value tokens are strings and real fields (variables were resolved to text by the converter)
define('value_ok', ['tokens'],
       'forall(0, len(tokens), lambda i: implies(is_field(tokens[i]), tokens[i].index is not None)) and '
       'forall(0, len(tokens), lambda i: implies(is_field(tokens[i]), tokens[i].index >= 0))')

fn(F + '.utils:push_tokens', props=P,
   params={'tokens': 'list[str|Field]', 'state': 'WalkState'}, returns='none',
   requires=['os_ok(state.out)', 'value_ok(tokens)'],
   ensures=['os_ok(state.out)', 'state.out.level == old(state.out.level)',
            # the counter only grows; every number emitted for this value lies in [old counter, new counter),
            # numbers inside one value keep their differences (old counter + written index)
            'state.field >= old(state.field)',
            'forall(0, len(tokens), lambda i: implies(is_field(tokens[i]), '
            '   old(state.field) + tokens[i].index < state.field))'],
   # a value without fields leaves the counter alone
   ensures_local=['implies(forall(0, len(tokens), lambda i: not is_field(tokens[i])), state.field == old(state.field))'],
   modifies=['state.field', 'state.out._value[*]', 'state.out.offset', 'state.out.column', 'state.out.line'], allocates=True,
   loops={0: {'anchor': 'for t in tokens',
              'invariant': ['os_ok(out)', 'out is state.out', 'out.level == old(state.out.level)', '_i0 <= len(tokens)',
                            'tokens is _seq0', 'state.field == old(state.field)', 'largest_index >= -1',
                            'forall(0, _i0, lambda i: implies(is_field(tokens[i]), tokens[i].index <= largest_index))',
                            'implies(largest_index == -1, forall(0, _i0, lambda i: not is_field(tokens[i])))',
                            'implies(largest_index != -1, exists(0, _i0, lambda i: is_field(tokens[i])))',
                            'value_ok(tokens)']}})

# ---------------------------------------------------------------------------------------
# indent-based formats: level bookkeeping per node (C15)
# ---------------------------------------------------------------------------------------
IF = F + '.indent_format'
cls(IF + ':IndentWalkState', bases=['WalkState'], fields={'options': 'map', 'after_head': 'bool'})

OUT_MOD = ['state.out._value[*]', 'state.out.offset', 'state.out.column', 'state.out.line']
KEEP = ['os_ok(state.out)', 'state.out.level == old(state.out.level)', 'state.out is old(state.out)']

# helpers that only read the node and push text: trusted here (frame and "level unchanged" assumed)
fn(IF + ':collect_attributes', props=['C15'], trusted=True,
   params={'node': 'any'}, returns='tuple[any,any]', requires=[], ensures=[], modifies=[], allocates=True)
fn(IF + ':should_format', props=['C15'], trusted=True,
   params={'node': 'any', 'index': 'any', 'items': 'any', 'state': 'any'}, returns='bool',
   requires=[], ensures=[], modifies=[])
for _f in ('push_primary_attributes', 'push_secondary_attributes'):
    fn('%s:%s' % (IF, _f), props=['C15'], trusted=True,
       params={'attrs': 'any', 'state': 'IndentWalkState'}, returns='none',
       requires=['os_ok(state.out)'], ensures=KEEP, modifies=OUT_MOD + ['state.field'], allocates=True,
       note='attribute rendering (regex, comprehension, option lookups): text only, level untouched')
fn(IF + ':push_value', props=['C15'], trusted=True,
   params={'node': 'any', 'state': 'IndentWalkState'}, returns='none',
   requires=['os_ok(state.out)'], ensures=KEEP, modifies=OUT_MOD + ['state.field', 'state.after_head', 'state.out.level'],
   allocates=True,
   note='multi-line layout raises the level by one around the text lines and restores it (bounded clause '
        'text-only-self-closing-levels / head-forms check it on the real code)')

fn(IF + ':element', props=['C15'],
   params={'node': 'AbbreviationNode', 'index': 'any', 'items': 'any', 'state': 'IndentWalkState', 'walk_next': 'fn'},
   returns='none',
   requires=['os_ok(state.out)', "has(state.options, 'selfClose')"],
   # the level is raised by one for a nested node (not for top-level ones) and restored on EVERY path:
   # a level leak after a self-closing or text-only node is exactly a failure of this postcondition
   ensures=KEEP,
   modifies=OUT_MOD + ['state.field', 'state.after_head', 'state.out.level'], allocates=True,
   # children are walked through the callback: it writes output and leaves the level as it found it
   # (that is this very postcondition, established for the recursive invocation by format.walk)
   callback={'param': 'walk_next', 'args': ['child', 'cindex', 'citems'], 'requires': ['os_ok(state.out)'],
             'modifies': OUT_MOD + ['state.field', 'state.after_head', 'state.out.level'],
             'ensures': ['os_ok(state.out)', 'state.out.level == old(state.out.level)'], 'returns': 'any'},
   loops={0: {'anchor': 'for (index, child) in enumerate(node.children)',
              'invariant': ['os_ok(state.out)', 'state.out is out', 'out.level == old(state.out.level) + level',
                            'state.out is old(state.out)']}})

# ---------------------------------------------------------------------------------------
# HTML format: indentation level per node (C12)
# ---------------------------------------------------------------------------------------
HF = F + '.html'
cls(HF + ':HTMLWalkState', bases=['WalkState'], fields={'comment': 'any'})

ST_MOD = OUT_MOD + ['state.field', 'state.out.level']
CB_WALK = {'param': 'walk_next', 'args': ['child', 'cindex', 'citems'], 'requires': ['os_ok(state.out)'],
           'modifies': ST_MOD, 'ensures': ['os_ok(state.out)', 'state.out.level == old(state.out.level)'], 'returns': 'any'}

# decisions and text-only helpers: trusted (they read the tree/config and push text; no level arithmetic)
fn(HF + ':should_format', props=['C12'], trusted=True,
   params={'node': 'any', 'index': 'any', 'items': 'any', 'state': 'any'}, returns='bool',
   requires=[], ensures=[], modifies=[])
fn(HF + ':has_newline', props=['C12'], trusted=True, params={'value': 'any'}, returns='bool',
   requires=[], ensures=[], modifies=[])
fn(HF + ':starts_with_block_tag', props=['C12'], trusted=True, params={'value': 'any', 'config': 'any'}, returns='bool',
   requires=[], ensures=[], modifies=[])
fn('emmet.list_utils:some', props=['C12'], trusted=True, params={'fn': 'any', 'items': 'any'}, returns='bool',
   requires=[], ensures=[], modifies=[])
fn('emmet.output_stream:tag_name', props=['C12'], trusted=True, params={'name': 'any', 'config': 'any'}, returns='any',
   requires=[], ensures=[], modifies=[])
fn('emmet.output_stream:self_close', props=['C12'], trusted=True, params={'config': 'any'}, returns='any',
   requires=[], ensures=[], modifies=[])
fn(F + '.utils:should_output_attribute', props=['C12'], trusted=True, params={'attr': 'any'}, returns='any',
   requires=[], ensures=[], modifies=[])
fn(F + '.utils:is_snippet', inline=True, pure=True, props=['C12'])
for _f in ('comment_node_before', 'comment_node_after'):
    fn('%s.comment:%s' % (F, _f), props=['C12'], trusted=True,
       params={'node': 'any', 'state': 'HTMLWalkState'}, returns='none',
       requires=['os_ok(state.out)'], ensures=KEEP, modifies=OUT_MOD + ['state.field'], allocates=True,
       note='comment emission only pushes text before/after the element')
fn(HF + ':push_attribute', props=['C12'], trusted=True,
   params={'attr': 'any', 'state': 'HTMLWalkState'}, returns='none',
   requires=['os_ok(state.out)'], ensures=KEEP, modifies=OUT_MOD + ['state.field'], allocates=True)
fn(HF + ':push_snippet', props=['C12'], trusted=True,
   params={'node': 'any', 'state': 'HTMLWalkState', 'walk_next': 'fn'}, returns='bool',
   requires=['os_ok(state.out)'], ensures=KEEP, modifies=ST_MOD, allocates=True,
   callback={'param': 'walk_next', 'args': ['child', 'cindex', 'citems'], 'requires': [], 'returns': 'any'},
   note='pushes text and walks the children through the callback (which restores the level)')
fn(HF + ':_next', props=['C12'], trusted=True,
   params={'items': 'any', 'walk_next': 'fn'}, returns='none',
   requires=[], ensures=[], modifies=['*'],
   callback={'param': 'walk_next', 'args': ['child', 'cindex', 'citems'], 'requires': [], 'returns': 'any'},
   note='a loop that calls the callback for every child; see element() for how its effect is described')

fn(HF + ':get_indent', props=['C12'],
   params={'state': 'HTMLWalkState'}, returns='int',
   # the options are the merged options of a Config: the built-in keys are present
   requires=["has(state.config.options, 'output.formatSkip')"],
   # 0 iff no parent / snippet parent / parent exempted through output.formatSkip, else 1
   ensures=['result == 0 or result == 1', 'implies(not state.parent, result == 0)'],
   modifies=[])

# NOTE: a contract for html.element() itself (level restored on every path, as proved for the indent formats)
# was attempted and withdrawn: after the attribute loop and five or six contract calls the obligations
# `os_ok(out)` / `value_ok(node.value)` carry store chains over 600 path facts and both z3 and cvc5 answer
# `unknown`.  The clause is covered by the bounded clause indent-equals-depth; see DESIGN.md section 11.

# (second attempt after the conjunction change: 76 of 323 obligations within a 240 s budget; withdrawn again)
# (third attempt after slicing / quantifier hygiene / absolute-position strings: 162 of 998 obligations within 400 s,
#  every query carries the facts of five to ten contract calls and takes 1-3 s: withdrawn a third time)

# ---------------------------------------------------------------------------------------
# C12 (last sentence: "the self-closing style changes only the ` /` or `/` before `>`") and C03 (attribute case):
# the printed tag / attribute name is the written name cased by output.tagCase / output.attributeCase and by
# nothing else (no other option, in particular not output.selfClosingStyle, enters the result)
# ---------------------------------------------------------------------------------------
fn('emmet.output_stream:str_case', inline=True, pure=True, props=['C12', 'C03'])
fn('emmet.output_stream:attr_name', props=['C12', 'C03'],
   params={'name': 'str', 'config': 'Config'}, returns='str',
   requires=[],
   ensures=["same_str(result, str_case(name, config.options.get('output.attributeCase')))"],
   modifies=[])

# (fourth attempt, third session, after the quantifier-free subset attempt was added to the solver discipline:
#  67 of 642 obligations within 430 s -- `os_ok(out)` / `value_ok(node.value)` are quantified goals, the new attempt
#  does not apply to them; withdrawn a fourth time.  The clause stays with the bounded clause indent-equals-depth.)
