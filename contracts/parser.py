"""Contracts: emmet/token_scanner.py, emmet/abbreviation/parser/__init__.py  (C07: the parser leaves only through
its own error; C01: the statement loop)."""
from pyvc.contracts import fn, cls, define, rec

P = ['C07', 'C01']
TS = 'emmet.token_scanner'
PR = 'emmet.abbreviation.parser'

cls(TS + ':TokenScanner', fields={'tokens': 'list[Token]', 'start': 'int', 'pos': 'int', 'size': 'int'})
# the same real class seen over stylesheet tokens (functions of css_abbreviation/parser.py select it: class_alias)
cls(TS + ':TokenScanner', alias='CssTokenScanner',
    fields={'tokens': 'list[CssToken]', 'start': 'int', 'pos': 'int', 'size': 'int'})
cls(TS + ':TokenScannerException', fields={'message': 'str', 'pos': 'int|None'})
fn(TS + ':TokenScannerException.__init__', props=P, trusted=True,
   params={'self': 'TokenScannerException', 'message': 'str', 'pos': 'int|None'}, returns='none',
   requires=[], ensures=['(self.pos is None and pos is None) or (self.pos is not None and pos is not None and self.pos == pos)'],
   modifies=['self.message', 'self.pos'],
   note='the super().__init__(message) call is not modelled; only the two fields')
for _m in ('__init__', 'peek', 'next', 'readable', 'slice', 'consume'):
    fn(TS + ':TokenScanner.' + _m, inline=True, props=P)

# the token list never changes; the cursor never goes below 0 (it may run past the end: next() at the end)
define('tswf', ['s'], '0 <= s.pos and s.size == len(s.tokens) and 0 <= s.start')

fn(TS + ':TokenScanner.error', props=P,
   params={'self': 'TokenScanner|CssTokenScanner', 'message': 'str', 'token': 'Token|CssToken|None'},
   returns='TokenScannerException',
   requires=['tswf(self)'],
   ensures=['fresh(result)',
            # the reported position is the start of the offending token (or absent)
            'result.pos is None or (old(token) is not None and old(token).start is not None and result.pos == old(token).start) or '
            ' (old(token) is None and 0 <= self.pos and self.pos < self.size and self.tokens[self.pos].start is not None '
            '  and result.pos == self.tokens[self.pos].start)'],
   modifies=[], allocates=True)

for _p in ('is_bracket', 'is_operator', 'is_quote', 'is_white_space', 'is_equals', 'is_repeater', 'is_literal',
           'is_capitalized_literal', 'is_element_name', 'is_class_name_operator', 'is_attribute_set_start',
           'is_attribute_set_end', 'is_text_start', 'is_group_start', 'is_empty', 'is_child_operator',
           'is_sibling_operator', 'is_climb_operator', 'is_close_operator'):
    fn('%s:%s' % (PR, _p), inline=True, pure=True, props=P)

EXCPOS = ['exc.pos is None or exists(0, scanner.size, lambda i: scanner.tokens[i].start is not None '
          '                        and exc.pos == scanner.tokens[i].start)']
TCONS = ['tswf(scanner)', 'scanner.pos >= old(scanner.pos)', 'scanner.size == old(scanner.size)',
         'scanner.tokens is old(scanner.tokens)']

fn(PR + ':repeater', props=P,
   params={'scanner': 'TokenScanner'}, returns='Token|None',
   requires=['tswf(scanner)'],
   ensures=TCONS + ['implies(result is None, scanner.pos == old(scanner.pos))',
                    'implies(result is not None, scanner.pos == old(scanner.pos) + 1 and scanner.pos <= scanner.size)'],
   modifies=['scanner.pos'])

fn(PR + ':text', props=P,
   params={'scanner': 'TokenScanner'}, returns='bool',
   requires=['tswf(scanner)'],
   ensures=TCONS + ['implies(not result, scanner.pos == old(scanner.pos) and scanner.start == old(scanner.start))',
                    'implies(result, old(scanner.pos) < scanner.pos and scanner.pos <= scanner.size '
                    '        and scanner.start == old(scanner.pos))'],
   modifies=['scanner.pos', 'scanner.start'],
   loops={0: {'anchor': 'while scanner.readable()',
              'invariant': ['tswf(scanner)', 'start < scanner.pos', 'scanner.pos <= scanner.size', 'brackets >= 0',
                            'start == old(scanner.pos)', 'scanner.size == old(scanner.size)',
                            'scanner.tokens is old(scanner.tokens)'],
              'decreases': 'scanner.size - scanner.pos'}})

fn(PR + ':get_text', props=P,
   params={'scanner': 'TokenScanner'}, returns='list[Token]',
   requires=['tswf(scanner)', 'scanner.start < scanner.pos', 'scanner.pos <= scanner.size'],
   ensures=['fresh(result)'], modifies=[], allocates=True)

fn(PR + ':quoted', props=P,
   params={'scanner': 'TokenScanner'}, returns='bool',
   requires=['tswf(scanner)'],
   ensures=TCONS + ['implies(not result, scanner.pos == old(scanner.pos) and scanner.start == old(scanner.start))',
                    'implies(result, old(scanner.pos) + 2 <= scanner.pos and scanner.pos <= scanner.size '
                    '        and scanner.start == old(scanner.pos))'],
   raises=['TokenScannerException'], ensures_on_raise=EXCPOS,
   modifies=['scanner.pos', 'scanner.start'], allocates=True,
   loops={0: {'anchor': 'while scanner.readable()',
              'invariant': ['tswf(scanner)', 'start < scanner.pos', 'scanner.pos <= scanner.size',
                            'start == old(scanner.pos)', 'scanner.size == old(scanner.size)',
                            'scanner.tokens is old(scanner.tokens)', 'scanner.start == old(scanner.start)',
                            'quote is not None'],
              'decreases': 'scanner.size - scanner.pos'}})

rec('LitBrackets', {'attribute': 'int', 'expression': 'int', 'group': 'int'})

CONSUMED = ['implies(not result, scanner.pos == old(scanner.pos) and scanner.start == old(scanner.start))',
            'implies(result, old(scanner.pos) < scanner.pos and scanner.pos <= scanner.size '
            '        and scanner.start == old(scanner.pos))']

fn(PR + ':literal', props=P,
   params={'scanner': 'TokenScanner', 'allow_brackets': 'bool'}, returns='bool',
   requires=['tswf(scanner)'],
   ensures=TCONS + CONSUMED,
   modifies=['scanner.pos', 'scanner.start'], allocates=True,
   locals={'brackets': 'rec:LitBrackets'},
   loops={0: {'anchor': 'while scanner.readable()',
              'invariant': ['tswf(scanner)', 'start <= scanner.pos', 'scanner.pos <= max(start, scanner.size)',
                            'start == old(scanner.pos)', 'scanner.size == old(scanner.size)',
                            'scanner.tokens is old(scanner.tokens)', 'scanner.start == old(scanner.start)',
                            'fresh(brackets)'],
              'decreases': 'scanner.size - scanner.pos'}})

fn(PR + ':element_name', props=P,
   params={'scanner': 'TokenScanner', 'options': 'map'}, returns='bool',
   requires=['tswf(scanner)'],
   ensures=TCONS + CONSUMED,
   modifies=['scanner.pos', 'scanner.start'],
   loops={0: {'anchor': 'while scanner.readable()',
              'invariant': ['tswf(scanner)', 'start < scanner.pos', 'scanner.pos <= scanner.size',
                            'start == old(scanner.pos)', 'scanner.size == old(scanner.size)',
                            'scanner.tokens is old(scanner.tokens)', 'scanner.start == old(scanner.start)'],
              'decreases': 'scanner.size - scanner.pos'},
          1: {'anchor': 'while scanner.readable() and scanner.consume(is_element_name)',
              'invariant': ['tswf(scanner)', 'start <= scanner.pos', 'scanner.pos <= max(start, scanner.size)',
                            'start == old(scanner.pos)', 'scanner.size == old(scanner.size)',
                            'scanner.tokens is old(scanner.tokens)', 'scanner.start == old(scanner.start)'],
              'decreases': 'scanner.size - scanner.pos'}})

cls(PR + ':TokenAttribute', fields={'name': 'list[Token]|None', 'value': 'list[Token]|None', 'expression': 'bool',
                                    'multiple': 'bool'})
fn(PR + ':TokenAttribute.__init__', inline=True, props=P)
fn(PR + ':create_literal', inline=True, props=P)

NOEXC_CONS = TCONS + ['implies(result is None, scanner.pos == old(scanner.pos))',
                      'implies(result is not None, old(scanner.pos) < scanner.pos and scanner.pos <= scanner.size)']

fn(PR + ':attribute', props=P,
   params={'scanner': 'TokenScanner'}, returns='TokenAttribute|None',
   requires=['tswf(scanner)'],
   ensures=NOEXC_CONS + ['result is None or fresh(result)'],
   raises=['TokenScannerException'], ensures_on_raise=EXCPOS,
   modifies=['scanner.pos', 'scanner.start'], allocates=True)

fn(PR + ':short_attribute', props=P,
   params={'scanner': 'TokenScanner', 'attr_type': 'str', 'options': 'map'}, returns='TokenAttribute|None',
   requires=['tswf(scanner)', 'len(attr_type) >= 1'],
   ensures=NOEXC_CONS + ['result is None or fresh(result)'],
   modifies=['scanner.pos', 'scanner.start'], allocates=True, list_literals='Token',
   loops={0: {'anchor': 'while is_operator(scanner.peek(), attr_type)',
              'invariant': ['tswf(scanner)', 'old(scanner.pos) < scanner.pos', 'scanner.pos <= scanner.size',
                            'count >= 1', 'scanner.size == old(scanner.size)', 'scanner.tokens is old(scanner.tokens)',
                            'scanner.start == old(scanner.start)'],
              'decreases': 'scanner.size - scanner.pos'}})

fn(PR + ':attribute_set', props=P,
   params={'scanner': 'TokenScanner'}, returns='list[TokenAttribute]|None',
   requires=['tswf(scanner)'],
   ensures=NOEXC_CONS + ['result is None or fresh(result)'],
   raises=['TokenScannerException'], ensures_on_raise=EXCPOS,
   modifies=['scanner.pos', 'scanner.start'], allocates=True,
   locals={'attributes': 'list[TokenAttribute]'},
   loops={0: {'anchor': 'while scanner.readable()', 'writes': 'fresh',
              'invariant': ['tswf(scanner)', 'old(scanner.pos) < scanner.pos', 'scanner.pos <= scanner.size',
                            'scanner.size == old(scanner.size)', 'scanner.tokens is old(scanner.tokens)',
                            'fresh(attributes)'],
              'decreases': 'scanner.size - scanner.pos'}})

cls(PR + ':TokenElement', fields={'type': 'str', 'name': 'list[Token]|None', 'attributes': 'list[TokenAttribute]|None',
                                  'value': 'list[Token]|None', 'repeat': 'Token|None', 'self_close': 'bool',
                                  'elements': 'list[TokenElement|TokenGroup]'})
cls(PR + ':TokenGroup', fields={'type': 'str', 'elements': 'list[TokenElement|TokenGroup]', 'repeat': 'Token|None'})
fn(PR + ':TokenElement.__init__', inline=True, props=P, list_literals='TokenElement|TokenGroup')
fn(PR + ':TokenGroup.__init__', inline=True, props=P, list_literals='TokenElement|TokenGroup')

fn(PR + ':element', props=P,
   params={'scanner': 'TokenScanner', 'options': 'map'}, returns='TokenElement|None',
   requires=['tswf(scanner)'],
   ensures=TCONS + ['implies(result is None, scanner.pos == old(scanner.pos))',
                    'implies(result is not None, fresh(result) and old(scanner.pos) < scanner.pos '
                    '        and scanner.pos <= scanner.size)',
                    # a new element has no children yet: they are attached by the statement loop
                    'implies(result is not None, fresh(result.elements) and len(result.elements) == 0)'],
   raises=['TokenScannerException'], ensures_on_raise=EXCPOS,
   modifies=['scanner.pos', 'scanner.start'], allocates=True, list_literals='TokenAttribute',
   locals={'attr': 'TokenAttribute|list[TokenAttribute]|None'},
   loops={0: {'anchor': 'while scanner.readable()', 'writes': 'fresh',
              'invariant': ['tswf(scanner)', 'old(scanner.pos) <= scanner.pos', 'scanner.pos <= max(old(scanner.pos), scanner.size)',
                            'scanner.size == old(scanner.size)', 'scanner.tokens is old(scanner.tokens)',
                            'fresh(elem)', 'fresh(elem.elements)', 'len(elem.elements) == 0',
                            'elem.attributes is None or fresh(elem.attributes)',
                            'implies(is_empty(elem), scanner.pos == old(scanner.pos))',
                            'implies(not is_empty(elem), old(scanner.pos) < scanner.pos and scanner.pos <= scanner.size)'],
              'decreases': 'scanner.size - scanner.pos'}})

# statements() and group() call each other: the measure is (tokens left, rank) compared lexicographically
REC = dict(rec_group='markup-parser')
NODE_FRESH = 'fresh(%s) and fresh(%s.elements)'

fn(PR + ':group', props=P,
   params={'scanner': 'TokenScanner', 'options': 'map'}, returns='TokenGroup|None',
   requires=['tswf(scanner)'],
   ensures=TCONS + ['implies(result is None, scanner.pos == old(scanner.pos))',
                    'implies(result is not None, old(scanner.pos) < scanner.pos and ' + NODE_FRESH % ('result', 'result') + ')'],
   raises=['TokenScannerException'], ensures_on_raise=EXCPOS,
   modifies=['scanner.pos', 'scanner.start'], allocates=True,
   decreases=['max(scanner.size - scanner.pos, 0)', '0'], **REC)

fn(PR + ':statements', props=P,
   params={'scanner': 'TokenScanner', 'options': 'map'}, returns='TokenGroup',
   requires=['tswf(scanner)'],
   ensures=TCONS + [NODE_FRESH % ('result', 'result')],
   raises=['TokenScannerException'], ensures_on_raise=EXCPOS,
   modifies=['scanner.pos', 'scanner.start'], allocates=True,
   decreases=['max(scanner.size - scanner.pos, 0)', '1'], **REC,
   list_literals='TokenElement|TokenGroup',
   # ghost: the cursor right after the node of the current iteration (the climb loop only moves forward from there)
   ghost={'g_p': ('int', '0')},
   ghost_code={'node = element(scanner, options) or group(scanner, options)': ['g_p = scanner.pos']},
   locals={'ctx': 'TokenElement|TokenGroup', 'node': 'TokenElement|TokenGroup|None',
           'stack': 'list[TokenElement|TokenGroup]'},
   loops={0: {'anchor': 'while scanner.readable()', 'writes': 'fresh',
              'invariant': ['tswf(scanner)', 'old(scanner.pos) <= scanner.pos', 'scanner.size == old(scanner.size)',
                            'scanner.tokens is old(scanner.tokens)',
                            NODE_FRESH % ('result', 'result'), NODE_FRESH % ('ctx', 'ctx'), 'fresh(stack)',
                            'forall(0, len(stack), lambda i: fresh(stack[i]) and fresh(stack[i].elements))'],
              'decreases': 'max(scanner.size - scanner.pos, 0)'},
          1: {'anchor': 'while scanner.consume(is_climb_operator)', 'writes': 'fresh',
              'invariant': ['tswf(scanner)', 'old(scanner.pos) <= scanner.pos', 'g_p <= scanner.pos', 'scanner.size == old(scanner.size)',
                            'scanner.tokens is old(scanner.tokens)',
                            NODE_FRESH % ('result', 'result'), NODE_FRESH % ('ctx', 'ctx'), 'fresh(stack)',
                            'forall(0, len(stack), lambda i: fresh(stack[i]) and fresh(stack[i].elements))'],
              'decreases': 'max(scanner.size - scanner.pos, 0)'}})

fn(PR + ':parse', props=P,
   params={'abbr': 'list[Token]', 'options': 'map'}, returns='TokenGroup',
   requires=[],
   ensures=[NODE_FRESH % ('result', 'result')],
   # the only way out besides a tree is the parser's own error, positioned at the start of one of the tokens
   raises=['TokenScannerException'],
   ensures_on_raise=['exc.pos is None or exists(0, len(abbr), lambda i: abbr[i].start is not None and exc.pos == abbr[i].start)'],
   modifies=[], allocates=True)


# ---------------------------------------------------------------------------------------
# css_abbreviation/parser.py: same shape of argument over stylesheet tokens
# ---------------------------------------------------------------------------------------
CP = 'emmet.css_abbreviation.parser'
PC = ['C07', 'C05']
CSS_VIEW = dict(class_alias={'TokenScanner': 'CssTokenScanner'})
cls(CP + ':FunctionCall', fields={'type': 'str', 'name': 'str', 'arguments': 'list[CSSValue]'})
cls(CP + ':CSSValue', fields={'type': 'str', 'value': 'list[CssToken|FunctionCall]'})
cls(CP + ':CSSProperty', alias='CssAbbrProperty',
    fields={'name': 'str|None', 'value': 'list[CSSValue]', 'important': 'bool', 'snippet': 'any'})
for _k in ('FunctionCall', 'CSSValue', 'CSSProperty'):
    fn(CP + ':%s.__init__' % _k, inline=True, props=PC)
for _p in ('is_literal', 'is_bracket', 'is_open_bracket', 'is_close_bracket', 'is_white_space', 'is_operator',
           'is_sibling_operator', 'is_argument_delimiter', 'is_fragment_delimiter', 'is_important', 'is_value',
           'is_value_delimiter'):
    fn('%s:%s' % (CP, _p), inline=True, pure=True, props=PC)

CEXC = ['exc.pos is None or exists(0, scanner.size, lambda i: scanner.tokens[i].start is not None '
        '                        and exc.pos == scanner.tokens[i].start)']
CREC = dict(rec_group='css-parser')

fn(CP + ':is_function_start', props=PC,
   params={'scanner': 'CssTokenScanner'}, returns='any',
   requires=['tswf(scanner)'], ensures=[], modifies=[], **CSS_VIEW)

fn(CP + ':consume_arguments', props=PC,
   params={'scanner': 'CssTokenScanner'}, returns='list[CSSValue]|None',
   requires=['tswf(scanner)'],
   ensures=TCONS + ['implies(result is None, scanner.pos == old(scanner.pos))',
                    'implies(result is not None, fresh(result) and old(scanner.pos) < scanner.pos and scanner.pos <= scanner.size)'],
   raises=['TokenScannerException'], ensures_on_raise=CEXC,
   modifies=['scanner.pos', 'scanner.start'], allocates=True,
   locals={'args': 'list[CSSValue]'},
   decreases=['max(scanner.size - scanner.pos, 0)', '0'], **CREC, **CSS_VIEW,
   loops={0: {'anchor': 'while scanner.readable() and (not scanner.consume(is_close_bracket))', 'writes': 'fresh',
              'invariant': ['tswf(scanner)', 'old(scanner.pos) < scanner.pos', 'scanner.pos <= scanner.size',
                            'scanner.size == old(scanner.size)', 'scanner.tokens is old(scanner.tokens)',
                            'fresh(args)', 'start == old(scanner.pos)'],
              'decreases': 'scanner.size - scanner.pos'}})

fn(CP + ':consume_value', props=PC,
   params={'scanner': 'CssTokenScanner', 'in_argument': 'bool'}, returns='CSSValue|None',
   requires=['tswf(scanner)'],
   ensures=TCONS + ['scanner.pos <= max(old(scanner.pos), scanner.size)',
                    'implies(result is not None, fresh(result) and old(scanner.pos) < scanner.pos)'],
   raises=['TokenScannerException'], ensures_on_raise=CEXC,
   modifies=['scanner.pos', 'scanner.start'], allocates=True,
   locals={'result': 'list[CssToken|FunctionCall]', 'args': 'list[CSSValue]|None'},
   decreases=['max(scanner.size - scanner.pos, 0)', '1'], **CREC, **CSS_VIEW,
   loops={0: {'anchor': 'while scanner.readable()', 'writes': 'fresh',
              'invariant': ['tswf(scanner)', 'old(scanner.pos) <= scanner.pos', 'scanner.pos <= max(old(scanner.pos), scanner.size)',
                            'scanner.size == old(scanner.size)', 'scanner.tokens is old(scanner.tokens)',
                            'fresh(result)', 'implies(len(result) > 0, old(scanner.pos) < scanner.pos)'],
              'decreases': 'scanner.size - scanner.pos'}})

fn(CP + ':consume_property', props=PC,
   params={'scanner': 'CssTokenScanner', 'options': 'map'}, returns='CssAbbrProperty|None',
   requires=['tswf(scanner)'],
   ensures=TCONS + ['scanner.pos <= max(old(scanner.pos), scanner.size)',
                    'implies(result is not None, fresh(result) and old(scanner.pos) < scanner.pos)'],
   raises=['TokenScannerException'], ensures_on_raise=CEXC,
   modifies=['scanner.pos', 'scanner.start'], allocates=True,
   locals={'value': 'list[CSSValue]', 'name': 'str|None'}, **CSS_VIEW,
   loops={0: {'anchor': 'while scanner.readable()', 'writes': 'fresh',
              'invariant': ['tswf(scanner)', 'old(scanner.pos) <= scanner.pos', 'scanner.pos <= max(old(scanner.pos), scanner.size)',
                            'scanner.size == old(scanner.size)', 'scanner.tokens is old(scanner.tokens)',
                            'fresh(value)',
                            'implies(name is not None or len(value) > 0 or important, old(scanner.pos) < scanner.pos)'],
              'decreases': 'scanner.size - scanner.pos'}})

fn(CP + ':parser', props=PC,
   params={'token_list': 'list[CssToken]', 'options': 'map'}, returns='list[CssAbbrProperty]',
   requires=[],
   ensures=['fresh(result)'],
   raises=['TokenScannerException'],
   ensures_on_raise=['exc.pos is None or exists(0, len(token_list), lambda i: token_list[i].start is not None '
                     '                        and exc.pos == token_list[i].start)'],
   modifies=[], allocates=True, **CSS_VIEW,
   locals={'result': 'list[CssAbbrProperty]'},
   loops={0: {'anchor': 'while scanner.readable()', 'writes': 'fresh',
              'invariant': ['tswf(scanner)', 'scanner.pos <= scanner.size', 'scanner.size == len(token_list)',
                            'scanner.tokens is token_list', 'fresh(scanner)', 'fresh(result)'],
              'decreases': 'scanner.size - scanner.pos'}})
