"""Contracts: emmet/scanner.py, emmet/scanner_utils.py  (base layer of C16/C18/C07)."""
from pyvc.contracts import fn, cls, define

cls('emmet.scanner:Scanner',
    fields={'string': 'str', 'pos': 'int', 'start': 'int', 'end': 'int'})
cls('emmet.scanner:ScannerException',
    fields={'message': 'str', 'string': 'str', 'pos': 'int'})

# well-formed scanner: the window [.., end) lies inside the string and the cursor is not negative.
# `pos <= end` is deliberately NOT part of it: several consumers step one past `end` transiently.
define('wf', ['s'], '0 <= s.end and s.end <= len(s.string) and 0 <= s.pos')
define('peekc', ['s'], "s.string[s.pos] if s.pos < s.end else ''")

P16 = ['C16', 'C18', 'C07', 'C09', 'C10', 'C17']

fn('emmet.scanner:Scanner.__init__', inline=True, props=P16)
fn('emmet.scanner:Scanner.eof', inline=True, pure=True, props=P16)
fn('emmet.scanner:Scanner.back_up', inline=True, props=P16)
fn('emmet.scanner:Scanner.current', inline=True, props=P16)
fn('emmet.scanner:Scanner.substring', inline=True, props=P16)
fn('emmet.scanner:Scanner.limit', inline=True, props=P16)
fn('emmet.scanner:ScannerException.__init__', inline=True, props=P16)

fn('emmet.scanner:Scanner.peek', props=P16,
   params={'self': 'Scanner'}, returns='echar',
   requires=['wf(self)'],
   ensures=['result == peekc(self)'],
   modifies=[])

fn('emmet.scanner:Scanner.next', props=P16,
   params={'self': 'Scanner'}, returns='char|None',
   requires=['wf(self)'],
   ensures=['implies(old(self.pos) < self.end, result == old(peekc(self)) and self.pos == old(self.pos) + 1)',
            'implies(old(self.pos) >= self.end, result is None and self.pos == old(self.pos))'],
   modifies=['self.pos'])

fn('emmet.scanner:Scanner.eat', props=P16,
   params={'self': 'Scanner', 'match': 'echar|pred'}, returns='bool',
   # weakest precondition for "never steps past end": at end of input the matcher must reject ''
   requires=['wf(self)', "self.pos < self.end or not holds(match, '')"],
   ensures=['result == holds(match, old(peekc(self)))',
            'self.pos == old(self.pos) + (1 if result else 0)'],
   modifies=['self.pos'],
   note='result is modelled as bool (truthiness abstraction when `match` is a predicate)')

fn('emmet.scanner:Scanner.eat_while', props=P16,
   params={'self': 'Scanner', 'match': 'echar|pred'}, returns='bool',
   requires=['wf(self)'],
   ensures=['old(self.pos) <= self.pos',
            'self.pos <= max(old(self.pos), self.end)',
            'result == (self.pos != old(self.pos))',
            'chars_hold(self.string, old(self.pos), self.pos, match)',
            'self.pos >= self.end or not holds(match, self.string[self.pos])'],
   modifies=['self.pos'],
   loops={0: {'anchor': 'while self.pos < self.end and self.eat(match)',
              'invariant': ['start <= self.pos',
                            'self.pos <= max(start, self.end)',
                            'chars_hold(self.string, start, self.pos, match)'],
              'decreases': 'self.end - self.pos + 1'}})

fn('emmet.scanner:Scanner.error', props=P16,
   params={'self': 'Scanner', 'message': 'str', 'pos': 'int|None'}, returns='ScannerException',
   requires=[],
   ensures=['fresh(result)',
            'result.pos == (self.pos if pos is None else pos)',
            'same_str(result.string, self.string)'],
   modifies=[])

# ---------------------------------------------------------------------------------------
# scanner_utils.py
# ---------------------------------------------------------------------------------------
from pyvc.contracts import rec

rec('ScanOpt', {'escape': 'char', 'throws': 'bool'})
rec('ScanOptIn', {'escape': 'char', 'throws': 'bool'}, optional=True)

for _p in ('is_number', 'is_alpha', 'is_alpha_numeric', 'is_alpha_numeric_word', 'is_alpha_word',
           'is_white_space', 'is_space', 'is_quote'):
    fn('emmet.scanner_utils:' + _p, inline=True, pure=True, props=P16 + ['C11', 'C19'])

fn('emmet.scanner_utils:create_options', props=P16,
   params={'opt': 'rec:ScanOptIn'}, returns='rec:ScanOpt',
   requires=[],
   ensures=['fresh(result)',
            "result['throws'] == (opt['throws'] if 'throws' in opt else False)",
            "result['escape'] == (opt['escape'] if 'escape' in opt else '\\\\')"],
   modifies=[], locals={'options': 'rec:ScanOpt'})

# "does not throw" variant: every caller in the matchers passes options without `throws`
NOTHROW = "('throws' not in options) or options['throws'] == False"

fn('emmet.scanner_utils:eat_quoted', props=P16,
   params={'scanner': 'Scanner', 'options': 'rec:ScanOptIn'}, returns='bool',
   requires=['wf(scanner)', NOTHROW],
   ensures=['implies(not result, scanner.pos == old(scanner.pos) and scanner.start == old(scanner.start))',
            'implies(result, scanner.pos >= old(scanner.pos) + 2 and scanner.pos <= scanner.end '
            'and scanner.start == old(scanner.pos))',
            'implies(result, is_quote(scanner.string[old(scanner.pos)]) and '
            'scanner.string[scanner.pos - 1] == scanner.string[old(scanner.pos)])'],
   modifies=['scanner.pos', 'scanner.start'], allocates=True,
   loops={0: {'anchor': 'while not scanner.eof()',
              'invariant': ['start < scanner.pos', 'scanner.pos <= scanner.end + 1', 'start == old(scanner.pos)',
                            'start < scanner.end', 'is_quote(quote)', 'quote == scanner.string[start]',
                            'scanner.start == old(scanner.start)', "options['throws'] == False"],
              'decreases': 'scanner.end + 1 - scanner.pos'}})

fn('emmet.scanner_utils:eat_pair', props=P16,
   params={'scanner': 'Scanner', 'open_ch': 'char', 'close_ch': 'char', 'options': 'rec:ScanOptIn'}, returns='bool',
   requires=['wf(scanner)', NOTHROW],
   ensures=['implies(not result, scanner.pos == old(scanner.pos))',
            'implies(result, scanner.pos >= old(scanner.pos) + 2 and scanner.pos <= scanner.end '
            'and scanner.start == old(scanner.pos))'],
   modifies=['scanner.pos', 'scanner.start'], allocates=True,
   loops={0: {'anchor': 'while not scanner.eof()',
              'invariant': ['start < scanner.pos', 'scanner.pos <= scanner.end + 1', 'start == old(scanner.pos)',
                            'start < scanner.end', 'stack >= 1',
                            "options['throws'] == False"],
              'decreases': 'scanner.end + 1 - scanner.pos'}})
