"""Contracts: emmet/stylesheet/*  (C06, C05)."""
from pyvc.contracts import fn, cls, define

S = 'emmet.stylesheet'
P = ['C06']

cls(S + '.snippets:CSSSnippetRaw', fields={'type': 'str', 'key': 'str', 'value': 'any'})
cls(S + '.snippets:CSSSnippetProperty',
    fields={'type': 'str', 'key': 'str', 'value': 'any', 'property': 'any', 'keywords': 'any', 'dependencies': 'any'})

fn(S + ':get_scoring_part', inline=True, pure=True, props=P)

# the fuzzy score is abstracted to its contract: a deterministic value in [0, 1]
fn(S + '.score:calculate_score', props=P, trusted=True,
   params={'str1': 'str', 'str2': 'str', 'partial_match': 'bool'}, returns='float',
   requires=[],
   ensures=["result == uf_real('score', str1, str2, partial_match)", '0 <= result', 'result <= 1'],
   modifies=[],
   note='float arithmetic over character positions: abstracted; the finite-domain clause of C06 decides, for every '
        'built-in key, that no other key scores 1 against it')

define('sc', ['abbr', 'items', 'j', 'pm'], "uf_real('score', abbr, get_scoring_part(items[j]), pm)")
define('hit', ['abbr', 'items', 'j', 'pm'], 'sc(abbr, items, j, pm) == 1 and get_scoring_part(items[j]) == abbr')

ITEMS = 'list[str|CSSSnippetRaw|CSSSnippetProperty]'
fn(S + ':find_best_match', props=P,
   params={'abbr': 'str', 'items': ITEMS, 'min_score': 'float', 'partial_match': 'bool'},
   returns='str|CSSSnippetRaw|CSSSnippetProperty|None',
   requires=[],
   # "typing the key exactly selects that snippet": the FIRST item whose key equals the abbreviation with score 1
   ensures=['implies(exists(0, len(items), lambda i: hit(abbr, items, i, partial_match)), '
            '        exists(0, len(items), lambda i: result is items[i] and hit(abbr, items, i, partial_match) and '
            '               forall(0, i, lambda j: not hit(abbr, items, j, partial_match))))',
            # otherwise the LAST item with the maximal non-zero score, provided it reaches min_score
            'implies(not exists(0, len(items), lambda i: hit(abbr, items, i, partial_match)) and result is not None, '
            '        exists(0, len(items), lambda i: result is items[i] and sc(abbr, items, i, partial_match) > 0 and '
            '               sc(abbr, items, i, partial_match) >= min_score and '
            '               forall(0, len(items), lambda j: sc(abbr, items, j, partial_match) <= sc(abbr, items, i, partial_match)) and '
            '               forall(i + 1, len(items), lambda j: sc(abbr, items, j, partial_match) < sc(abbr, items, i, partial_match))))',
            'implies(not exists(0, len(items), lambda i: hit(abbr, items, i, partial_match)) and result is None, '
            '        forall(0, len(items), lambda j: sc(abbr, items, j, partial_match) == 0 or '
            '                                        sc(abbr, items, j, partial_match) < min_score) or '
            '        exists(0, len(items), lambda i: sc(abbr, items, i, partial_match) > 0 and '
            '               sc(abbr, items, i, partial_match) < min_score and '
            '               forall(0, len(items), lambda j: sc(abbr, items, j, partial_match) <= sc(abbr, items, i, partial_match))))'],
   modifies=[],
   locals={'max_score': 'float', 'matched_item': 'str|CSSSnippetRaw|CSSSnippetProperty|None'},
   # ghost witness: the index of the item currently held in matched_item (-1: none)
   ghost={'g_idx': ('int', '-1'), 'g_hit': ('int', '-1')},
   ghost_code={'matched_item = item': ['g_idx = _i0 - 1'], 'return item': ['g_hit = _i0 - 1']},
   # the same statements as the postconditions, with the witnesses named (proved first, then the
   # existential forms below follow by instantiation)
   lemmas=['-1 <= g_hit and g_hit < len(items)', '-1 <= g_idx and g_idx < len(items)',
           'implies(g_hit >= 0, result is items[g_hit] and hit(abbr, items, g_hit, partial_match))',
           'implies(g_hit >= 0, forall(0, g_hit, lambda j: not hit(abbr, items, j, partial_match)))',
           'implies(g_hit == -1, forall(0, len(items), lambda j: not hit(abbr, items, j, partial_match)))',
           'implies(g_hit == -1 and result is not None, g_idx >= 0 and result is items[g_idx] and '
           '        sc(abbr, items, g_idx, partial_match) > 0 and sc(abbr, items, g_idx, partial_match) >= min_score)',
           'implies(g_hit == -1 and g_idx >= 0, '
           '        forall(0, len(items), lambda j: sc(abbr, items, j, partial_match) <= sc(abbr, items, g_idx, partial_match)))',
           'implies(g_hit == -1 and g_idx >= 0, '
           '        forall(g_idx + 1, len(items), lambda j: sc(abbr, items, j, partial_match) < sc(abbr, items, g_idx, partial_match)))',
           'implies(g_hit == -1 and result is None and g_idx >= 0, sc(abbr, items, g_idx, partial_match) < min_score)',
           'implies(g_hit == -1 and g_idx == -1, forall(0, len(items), lambda j: sc(abbr, items, j, partial_match) == 0))'],
   loops={0: {'anchor': 'for item in items',
              'invariant': ['_i0 <= len(items)', 'items is _seq0', 'max_score >= 0', 'g_hit == -1',
                            'forall(0, _i0, lambda j: not hit(abbr, items, j, partial_match))',
                            'forall(0, _i0, lambda j: sc(abbr, items, j, partial_match) <= max_score)',
                            '(matched_item is None) == (g_idx == -1)', '-1 <= g_idx', 'g_idx < _i0',
                            'implies(g_idx == -1, max_score == 0)',
                            'implies(g_idx == -1, forall(0, _i0, lambda j: sc(abbr, items, j, partial_match) == 0))',
                            'implies(g_idx >= 0, max_score > 0)',
                            'implies(g_idx >= 0, matched_item is items[g_idx])',
                            'implies(g_idx >= 0, sc(abbr, items, g_idx, partial_match) == max_score)',
                            'implies(g_idx >= 0, forall(g_idx + 1, _i0, lambda j: sc(abbr, items, j, partial_match) < max_score))']}})
