"""Contracts: emmet/abbreviation/tokenizer/*, emmet/css_abbreviation/tokenizer/*  (C18, C02, C04, C07)."""
from pyvc.contracts import fn, cls, define, rec

P = ['C18', 'C07']
M = 'emmet.abbreviation.tokenizer'
T = 'emmet.abbreviation.tokenizer.tokens'

cls(T + ':Token', fields={'start': 'int|None', 'end': 'int|None'})
cls(T + ':Repeater', fields={'count': 'int', 'value': 'int', 'implicit': 'bool'}, bases=['Token'])
cls(T + ':RepeaterNumber', fields={'size': 'int', 'reverse': 'bool', 'base': 'int', 'parent': 'int'}, bases=['Token'])
cls(T + ':RepeaterPlaceholder', fields={'value': 'str|None'}, bases=['Token'])
cls(T + ':Field', fields={'name': 'str', 'index': 'int|None'}, bases=['Token'])
cls(T + ':Operator', fields={'operator': 'str'}, bases=['Token'])
cls(T + ':Bracket', fields={'open': 'bool', 'context': "enum['group','attribute','expression']"}, bases=['Token'])
cls(T + ':Quote', fields={'single': 'bool'}, bases=['Token'])
cls(T + ':Literal', fields={'value': 'str'}, bases=['Token'])
cls(T + ':WhiteSpace', fields={'value': 'str'}, bases=['Token'])
for _c in ('Token', 'Repeater', 'RepeaterNumber', 'RepeaterPlaceholder', 'Field', 'Operator', 'Bracket', 'Quote',
           'Literal', 'WhiteSpace'):
    fn('%s:%s.__init__' % (T, _c), inline=True, props=P)
fn(T + ':Token.type', inline=True, pure=True, props=P)

rec('TokCtx', {'group': 'int', 'attribute': 'int', 'expression': 'int', 'quote': 'echar|None'})

for _p in ('is_allowed_operator', 'is_allowed_space', 'is_allowed_repeater', 'bracket_type', 'operator_type',
           'is_open_bracket', 'is_element_name'):
    fn('%s:%s' % (M, _p), inline=True, pure=True, props=P + ['C04'])
fn(M + ':inc_pos', inline=True, props=P)

# uniform consumer contract: either no token and nothing consumed, or a fresh token that spans exactly
# what was consumed (non-empty, inside the window)
def consumer(cls_name):
    return ['implies(result is None, scanner.pos == old(scanner.pos))',
            'implies(result is not None, fresh(result) and result.start == old(scanner.pos) and result.end == scanner.pos '
            'and old(scanner.pos) < scanner.pos and scanner.pos <= scanner.end)']

ERRPOS = ['0 <= exc.pos', 'exc.pos <= len(scanner.string)']
WFP = ['wf(scanner)', 'scanner.pos <= scanner.end']

fn(M + '.utils:escaped', props=P,
   params={'scanner': 'Scanner'}, returns='bool',
   requires=WFP,
   ensures=['implies(not result, scanner.pos == old(scanner.pos) and scanner.start == old(scanner.start))',
            'implies(result, old(scanner.pos) < scanner.pos and scanner.pos <= scanner.end '
            'and scanner.start == old(scanner.pos) + 1 and scanner.start <= scanner.pos)'],
   modifies=['scanner.pos', 'scanner.start'])

fn(M + ':white_space', props=P, params={'scanner': 'Scanner'}, returns='WhiteSpace|None',
   requires=WFP, ensures=consumer('WhiteSpace'), modifies=['scanner.pos'], allocates=True)
fn(M + ':quote', props=P, params={'scanner': 'Scanner'}, returns='Quote|None',
   requires=WFP, ensures=consumer('Quote'), modifies=['scanner.pos'], allocates=True)
fn(M + ':bracket', props=P, params={'scanner': 'Scanner'}, returns='Bracket|None',
   requires=WFP, ensures=consumer('Bracket'), modifies=['scanner.pos'], allocates=True)
fn(M + ':operator', props=P, params={'scanner': 'Scanner'}, returns='Operator|None',
   requires=WFP, ensures=consumer('Operator'), modifies=['scanner.pos'], allocates=True)
fn(M + ':repeater', props=P + ['C02'], params={'scanner': 'Scanner'}, returns='Repeater|None',
   requires=WFP,
   ensures=consumer('Repeater') + [
       # recognition (C02): implicit iff no digits follow the asterisk
       "implies(result is not None, scanner.string[old(scanner.pos)] == '*' and result.value == 0 and "
       " result.implicit == (scanner.pos == old(scanner.pos) + 1) and (result.implicit == False or result.count == 1))"],
   modifies=['scanner.pos', 'scanner.start'], allocates=True)
fn(M + ':repeater_placeholder', props=P, params={'scanner': 'Scanner'}, returns='RepeaterPlaceholder|None',
   requires=WFP,
   ensures=consumer('RepeaterPlaceholder') + ['implies(result is not None, scanner.pos == old(scanner.pos) + 2)'],
   modifies=['scanner.pos'], allocates=True)
fn(M + ':repeater_number', props=P + ['C02'], params={'scanner': 'Scanner'}, returns='RepeaterNumber|None',
   requires=WFP,
   ensures=consumer('RepeaterNumber') + [
       # recognition (C02): size == number of `$`; without `@` modifiers: forward, base 1, own repeater
       'implies(result is not None, result.size >= 1 and result.parent >= 0 and '
       " forall(old(scanner.pos), old(scanner.pos) + result.size, lambda i: scanner.string[i] == '$'))",
       "implies(result is not None and (old(scanner.pos) + result.size == scanner.pos), "
       " result.reverse == False and result.base == 1 and result.parent == 0)"],
   modifies=['scanner.pos', 'scanner.start'], allocates=True,
   loops={0: {'anchor': 'while scanner.eat(Chars.Climb)',
              'invariant': ['wf(scanner)', 'start + size + 1 + parent == scanner.pos', 'scanner.pos <= scanner.end',
                            'parent >= 0', 'size >= 1', 'start == old(scanner.pos)',
                            "forall(start, start + size, lambda i: scanner.string[i] == '$')"],
              'decreases': 'scanner.end - scanner.pos + 1'}})

fn(M + ':consume_placeholder', props=P, params={'scanner': 'Scanner'}, returns='str',
   requires=WFP,
   ensures=['old(scanner.pos) <= scanner.pos', 'scanner.pos <= scanner.end'],
   raises=['ScannerException'], ensures_on_raise=ERRPOS,
   modifies=['scanner.pos', 'scanner.start'], allocates=True,
   locals={'stack': 'list[int]'},
   loops={0: {'anchor': 'while not scanner.eof()',
              'invariant': ['wf(scanner)', 'old(scanner.pos) <= scanner.pos', 'scanner.pos <= scanner.end', 'fresh(stack)',
                            'forall(0, len(stack), lambda i: 0 <= stack[i] and stack[i] <= scanner.end)',
                            'scanner.start == old(scanner.pos)'],
              'decreases': 'scanner.end - scanner.pos'}})

fn(M + ':field', props=P, params={'scanner': 'Scanner', 'ctx': 'rec:TokCtx'}, returns='Field|None',
   requires=WFP,
   ensures=consumer('Field') + ['implies(result is not None, result.index is None or result.index >= 0)'],
   raises=['ScannerException'], ensures_on_raise=ERRPOS,
   modifies=['scanner.pos', 'scanner.start'], allocates=True)

fn(M + ':literal', props=P + ['C04'], params={'scanner': 'Scanner', 'ctx': 'rec:TokCtx'}, returns='Literal|None',
   requires=WFP,
   ensures=consumer('Literal'),
   modifies=['scanner.pos', 'scanner.start', "ctx['expression']"], allocates=True,
   locals={'value': 'list[str]'},
   loops={0: {'anchor': 'while not scanner.eof()',
              'invariant': ['wf(scanner)', 'start <= scanner.pos', 'scanner.pos <= scanner.end', 'start == old(scanner.pos)',
                            'fresh(value)'],
              'decreases': 'scanner.end - scanner.pos'}})

define('tok_span_ok', ['t'], 't.start is not None and t.end is not None and t.start < t.end')
TILES = ['forall(0, len(result), lambda i: tok_span_ok(result[i]))',
         'forall(0, len(result) - 1, lambda i: result[i].end == result[i + 1].start)',
         'len(result) == 0 or result[0].start == 0']

fn(M + ':tokenize', props=P, params={'source': 'str'}, returns='list[Token]',
   requires=[],
   # C18: spans are defined, non-empty, contiguous and cover the input from 0 to its length
   ensures=['fresh(result)'] + TILES +
           ['(len(result) == 0 and len(source) == 0) or (len(result) > 0 and result[len(result) - 1].end == len(source))'],
   raises=['ScannerException'], ensures_on_raise=['0 <= exc.pos', 'exc.pos <= len(source)'],
   modifies=[], allocates=True,
   locals={'result': 'list[Token]', 'ctx': 'rec:TokCtx', 'token': 'Token|None'},
   loops={0: {'anchor': 'while not scanner.eof()', 'writes': 'fresh',
              'invariant': ['wf(scanner)', 'scanner.pos <= scanner.end', 'scanner.end == len(source)',
                            'same_str(scanner.string, source)', 'fresh(result)', 'fresh(scanner)', 'fresh(ctx)'] + TILES +
                           ['(len(result) == 0 and scanner.pos == 0) or '
                            '(len(result) > 0 and result[len(result) - 1].end == scanner.pos)'],
              'decreases': 'scanner.end - scanner.pos'}})
