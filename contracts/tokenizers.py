"""Contracts: emmet/abbreviation/tokenizer/*, emmet/css_abbreviation/tokenizer/*  (C18, C02, C04, C07)."""
from pyvc.contracts import fn, cls, define, rec

P = ['C18', 'C07']
M = 'emmet.abbreviation.tokenizer'
T = 'emmet.abbreviation.tokenizer.tokens'

cls(T + ':Token', fields={'start': 'int|None', 'end': 'int|None'})
cls(T + ':Repeater', fields={'count': 'int', 'value': 'int', 'implicit': 'bool'}, bases=['Token'])
cls(T + ':RepeaterNumber', fields={'size': 'int', 'reverse': 'bool', 'base': 'int', 'parent': 'int'}, bases=['Token'])
cls(T + ':RepeaterPlaceholder', fields={'value': 'str|None'}, bases=['Token'])
cls(T + ':Field', fields={'name': 'str', 'index': 'int|None'}, bases=['Token'])
cls(T + ':Operator', fields={'operator': 'str'}, bases=['Token'])
cls(T + ':Bracket', fields={'open': 'bool', 'context': "enum['group','attribute','expression']"}, bases=['Token'])
cls(T + ':Quote', fields={'single': 'bool'}, bases=['Token'])
cls(T + ':Literal', fields={'value': 'str'}, bases=['Token'])
cls(T + ':WhiteSpace', fields={'value': 'str'}, bases=['Token'])
for _c in ('Token', 'Repeater', 'RepeaterNumber', 'RepeaterPlaceholder', 'Field', 'Operator', 'Bracket', 'Quote',
           'Literal', 'WhiteSpace'):
    fn('%s:%s.__init__' % (T, _c), inline=True, props=P)
fn(T + ':Token.type', inline=True, pure=True, props=P)

rec('TokCtx', {'group': 'int', 'attribute': 'int', 'expression': 'int', 'quote': 'echar|None'})

for _p in ('is_allowed_operator', 'is_allowed_space', 'is_allowed_repeater', 'bracket_type', 'operator_type',
           'is_open_bracket', 'is_element_name'):
    fn('%s:%s' % (M, _p), inline=True, pure=True, props=P + ['C04'])
fn(M + ':inc_pos', inline=True, props=P)

# uniform consumer contract: either no token and nothing consumed, or a fresh token that spans exactly
# what was consumed (non-empty, inside the window)
def consumer(cls_name):
    return ['implies(result is None, scanner.pos == old(scanner.pos))',
            'implies(result is not None, fresh(result) and result.start == old(scanner.pos) and result.end == scanner.pos '
            'and old(scanner.pos) < scanner.pos and scanner.pos <= scanner.end)']

ERRPOS = ['0 <= exc.pos', 'exc.pos <= len(scanner.string)']
WFP = ['wf(scanner)', 'scanner.pos <= scanner.end']

fn(M + '.utils:escaped', props=P,
   params={'scanner': 'Scanner'}, returns='bool',
   requires=WFP,
   ensures=['implies(not result, scanner.pos == old(scanner.pos) and scanner.start == old(scanner.start))',
            'implies(result, old(scanner.pos) < scanner.pos and scanner.pos <= scanner.end '
            'and scanner.start == old(scanner.pos) + 1 and scanner.start <= scanner.pos)'],
   modifies=['scanner.pos', 'scanner.start'])

fn(M + ':white_space', props=P, params={'scanner': 'Scanner'}, returns='WhiteSpace|None',
   requires=WFP, ensures=consumer('WhiteSpace'), modifies=['scanner.pos'], allocates=True)
fn(M + ':quote', props=P, params={'scanner': 'Scanner'}, returns='Quote|None',
   requires=WFP, ensures=consumer('Quote'), modifies=['scanner.pos'], allocates=True)
fn(M + ':bracket', props=P, params={'scanner': 'Scanner'}, returns='Bracket|None',
   requires=WFP, ensures=consumer('Bracket'), modifies=['scanner.pos'], allocates=True)
fn(M + ':operator', props=P, params={'scanner': 'Scanner'}, returns='Operator|None',
   requires=WFP, ensures=consumer('Operator'), modifies=['scanner.pos'], allocates=True)
fn(M + ':repeater', props=P + ['C02'], params={'scanner': 'Scanner'}, returns='Repeater|None',
   requires=WFP,
   ensures=consumer('Repeater') + [
       # recognition (C02): implicit iff no digits follow the asterisk
       "implies(result is not None, scanner.string[old(scanner.pos)] == '*' and result.value == 0 and "
       " result.implicit == (scanner.pos == old(scanner.pos) + 1) and (result.implicit == False or result.count == 1))"],
   modifies=['scanner.pos', 'scanner.start'], allocates=True)
fn(M + ':repeater_placeholder', props=P, params={'scanner': 'Scanner'}, returns='RepeaterPlaceholder|None',
   requires=WFP,
   ensures=consumer('RepeaterPlaceholder') + ['implies(result is not None, scanner.pos == old(scanner.pos) + 2)'],
   modifies=['scanner.pos'], allocates=True)
fn(M + ':repeater_number', props=P + ['C02'], params={'scanner': 'Scanner'}, returns='RepeaterNumber|None',
   requires=WFP,
   ensures=consumer('RepeaterNumber') + [
       # recognition (C02): size == number of `$`; without `@` modifiers: forward, base 1, own repeater
       'implies(result is not None, result.size >= 1 and result.parent >= 0 and '
       " forall(old(scanner.pos), old(scanner.pos) + result.size, lambda i: scanner.string[i] == '$'))",
       "implies(result is not None and (old(scanner.pos) + result.size == scanner.pos), "
       " result.reverse == False and result.base == 1 and result.parent == 0)"],
   modifies=['scanner.pos', 'scanner.start'], allocates=True,
   loops={0: {'anchor': 'while scanner.eat(Chars.Climb)',
              'invariant': ['wf(scanner)', 'start + size + 1 + parent == scanner.pos', 'scanner.pos <= scanner.end',
                            'parent >= 0', 'size >= 1', 'start == old(scanner.pos)',
                            "forall(start, start + size, lambda i: scanner.string[i] == '$')"],
              'decreases': 'scanner.end - scanner.pos + 1'}})

fn(M + ':consume_placeholder', props=P, params={'scanner': 'Scanner'}, returns='str',
   requires=WFP,
   ensures=['old(scanner.pos) <= scanner.pos', 'scanner.pos <= scanner.end'],
   raises=['ScannerException'], ensures_on_raise=ERRPOS,
   modifies=['scanner.pos', 'scanner.start'], allocates=True,
   locals={'stack': 'list[int]'},
   loops={0: {'anchor': 'while not scanner.eof()',
              'invariant': ['wf(scanner)', 'old(scanner.pos) <= scanner.pos', 'scanner.pos <= scanner.end', 'fresh(stack)',
                            'forall(0, len(stack), lambda i: 0 <= stack[i] and stack[i] <= scanner.end)',
                            'scanner.start == old(scanner.pos)'],
              'decreases': 'scanner.end - scanner.pos'}})

fn(M + ':field', props=P, params={'scanner': 'Scanner', 'ctx': 'rec:TokCtx'}, returns='Field|None',
   requires=WFP,
   ensures=consumer('Field') + ['implies(result is not None, result.index is None or result.index >= 0)'],
   raises=['ScannerException'], ensures_on_raise=ERRPOS,
   modifies=['scanner.pos', 'scanner.start'], allocates=True)

fn(M + ':literal', props=P + ['C04'], params={'scanner': 'Scanner', 'ctx': 'rec:TokCtx'}, returns='Literal|None',
   requires=WFP,
   ensures=consumer('Literal'),
   modifies=['scanner.pos', 'scanner.start', "ctx['expression']"], allocates=True,
   locals={'value': 'list[str]'},
   loops={0: {'anchor': 'while not scanner.eof()',
              'invariant': ['wf(scanner)', 'start <= scanner.pos', 'scanner.pos <= scanner.end', 'start == old(scanner.pos)',
                            'fresh(value)'],
              'decreases': 'scanner.end - scanner.pos'}})

define('tok_span_ok', ['t'], 't.start is not None and t.end is not None and t.start < t.end')
TILES = ['forall(0, len(result), lambda i: tok_span_ok(result[i]))',
         'forall(0, len(result) - 1, lambda i: result[i].end == result[i + 1].start)',
         'len(result) == 0 or result[0].start == 0']

fn(M + ':tokenize', props=P, params={'source': 'str'}, returns='list[Token]',
   requires=[],
   # C18: spans are defined, non-empty, contiguous and cover the input from 0 to its length
   ensures=['fresh(result)'] + TILES +
           ['(len(result) == 0 and len(source) == 0) or (len(result) > 0 and result[len(result) - 1].end == len(source))'],
   raises=['ScannerException'], ensures_on_raise=['0 <= exc.pos', 'exc.pos <= len(source)'],
   modifies=[], allocates=True,
   locals={'result': 'list[Token]', 'ctx': 'rec:TokCtx', 'token': 'Token|None'},
   loops={0: {'anchor': 'while not scanner.eof()', 'writes': 'fresh',
              'invariant': ['wf(scanner)', 'scanner.pos <= scanner.end', 'scanner.end == len(source)',
                            'same_str(scanner.string, source)', 'fresh(result)', 'fresh(scanner)', 'fresh(ctx)'] + TILES +
                           ['(len(result) == 0 and scanner.pos == 0) or '
                            '(len(result) > 0 and result[len(result) - 1].end == scanner.pos)'],
              'decreases': 'scanner.end - scanner.pos'}})

# =======================================================================================
# stylesheet abbreviation tokenizer
# =======================================================================================
CM = 'emmet.css_abbreviation.tokenizer'
CT = 'emmet.css_abbreviation.tokenizer.tokens'
PC = ['C18', 'C07', 'C05']

cls(CT + ':Token', alias='CssToken', fields={'start': 'int|None', 'end': 'int|None'})
cls(CT + ':Operator', alias='CssOperator', fields={'operator': 'str'}, bases=['CssToken'])
cls(CT + ':Bracket', alias='CssBracket', fields={'open': 'bool'}, bases=['CssToken'])
cls(CT + ':Literal', alias='CssLiteral', fields={'value': 'str'}, bases=['CssToken'])
cls(CT + ':CustomProperty', fields={'value': 'str'}, bases=['CssToken'])
cls(CT + ':NumberValue', fields={'value': 'float', 'raw_value': 'str', 'unit': 'str'}, bases=['CssToken'])
cls(CT + ':ColorValue', fields={'r': 'int', 'g': 'int', 'b': 'int', 'a': 'float|int', 'raw': 'str'}, bases=['CssToken'])
cls(CT + ':StringValue', fields={'value': 'str', 'quote': 'str'}, bases=['CssToken'])
cls(CT + ':Field', alias='CssField', fields={'name': 'str', 'index': 'int|None'}, bases=['CssToken'])
cls(CT + ':WhiteSpace', alias='CssWhiteSpace', fields={}, bases=['CssToken'])
for _c in ('Token', 'Operator', 'Bracket', 'Literal', 'CustomProperty', 'NumberValue', 'ColorValue', 'StringValue', 'Field'):
    fn('%s:%s.__init__' % (CT, _c), inline=True, props=PC)
fn(CT + ':Token.type', inline=True, pure=True, props=PC)

for _p in ('is_ident_prefix', 'is_hex', 'is_keyword', 'is_bracket', 'is_literal'):
    fn('%s:%s' % (CM, _p), inline=True, pure=True, props=PC)
fn(CM + ':should_consume_dash_after', inline=True, props=PC)
fn(CM + ':create_literal', inline=True, props=PC)

def cconsumer():
    return ['implies(result is None, scanner.pos == old(scanner.pos))',
            'implies(result is not None, fresh(result) and result.start == old(scanner.pos) and result.end == scanner.pos '
            'and old(scanner.pos) < scanner.pos and scanner.pos <= scanner.end)']

fn(CM + ':custom_property', props=PC, params={'scanner': 'Scanner'}, returns='CustomProperty|None',
   requires=WFP, ensures=cconsumer(), modifies=['scanner.pos', 'scanner.start'], allocates=True)
fn(CM + ':white_space', props=PC, params={'scanner': 'Scanner'}, returns='CssWhiteSpace|None',
   requires=WFP, ensures=cconsumer(), modifies=['scanner.pos'], allocates=True)
fn(CM + ':bracket', props=PC, params={'scanner': 'Scanner'}, returns='CssBracket|None',
   requires=WFP, ensures=cconsumer(), modifies=['scanner.pos'], allocates=True)
fn(CM + ':operator', props=PC, params={'scanner': 'Scanner'}, returns='CssOperator|None',
   requires=WFP, ensures=cconsumer(), modifies=['scanner.pos'], allocates=True)
fn(CM + ':literal', props=PC, params={'scanner': 'Scanner', 'short': 'bool'}, returns='CssLiteral|None',
   requires=WFP, ensures=cconsumer(), modifies=['scanner.pos', 'scanner.start'], allocates=True)
fn(CM + ':string_value', props=PC, params={'scanner': 'Scanner'}, returns='StringValue|None',
   requires=WFP, ensures=cconsumer(), modifies=['scanner.pos', 'scanner.start'], allocates=True,
   locals={'finished': 'bool'},
   loops={0: {'anchor': 'while not scanner.eof()',
              'invariant': ['wf(scanner)', 'start < scanner.pos', 'scanner.pos <= scanner.end', 'start == old(scanner.pos)',
                            'not finished', 'is_quote(ch)'],
              'decreases': 'scanner.end - scanner.pos'}})

fn(CM + ':consume_placeholder', props=PC, params={'stream': 'Scanner'}, returns='str',
   requires=['wf(stream)', 'stream.pos <= stream.end'],
   ensures=['old(stream.pos) <= stream.pos', 'stream.pos <= stream.end'],
   raises=['ScannerException'], ensures_on_raise=['0 <= exc.pos', 'exc.pos <= len(stream.string)'],
   modifies=['stream.pos', 'stream.start'], allocates=True,
   locals={'stack': 'list[int]'},
   loops={0: {'anchor': 'while not stream.eof()',
              'invariant': ['wf(stream)', 'old(stream.pos) <= stream.pos', 'stream.pos <= stream.end', 'fresh(stack)',
                            'forall(0, len(stack), lambda i: 0 <= stack[i] and stack[i] <= stream.end)',
                            'stream.start == old(stream.pos)'],
              'decreases': 'stream.end - stream.pos'}})

fn(CM + ':field', props=PC, params={'scanner': 'Scanner'}, returns='CssField|None',
   requires=WFP, ensures=cconsumer(),
   raises=['ScannerException'], ensures_on_raise=ERRPOS,
   modifies=['scanner.pos', 'scanner.start'], allocates=True)

# number shape (C05): -?d+ | -?d+. | -?d+.d+ | -?.d+ ; a lone `-` or `.` consumes nothing
define('digits', ['s', 'a', 'b'], 'chars_hold(s, a, b, is_number)')
fn(CM + ':consume_number', props=PC, params={'stream': 'Scanner'}, returns='bool',
   requires=['wf(stream)', 'stream.pos <= stream.end'],
   ensures=['result == (stream.pos != old(stream.pos))', 'old(stream.pos) <= stream.pos', 'stream.pos <= stream.end',
            'implies(result, numshape(stream.string, old(stream.pos), stream.pos))'],
   # witnesses for the existential in numshape: end of the sign, end of the integer part
   lemmas=['implies(stream.pos != start, numshape(stream.string, start, stream.pos, after_negative, '
           '                                      prev_pos if prev_pos <= stream.pos else stream.pos))'],
   modifies=['stream.pos'])

fn(CM + ':number_value', props=PC, params={'scanner': 'Scanner'}, returns='NumberValue|None',
   requires=WFP, ensures=cconsumer(), modifies=['scanner.pos', 'scanner.start'], allocates=True)

fn(CM + ':color_alpha', props=PC, params={'scanner': 'Scanner'}, returns='str',
   requires=WFP,
   ensures=['old(scanner.pos) <= scanner.pos', 'scanner.pos <= scanner.end',
            'implies(len(result) == 0, scanner.pos == old(scanner.pos))'],
   modifies=['scanner.pos', 'scanner.start'])

fn(CM + ':parse_color', props=PC, trusted=True,
   params={'value': 'str', 'alpha': 'str|None'}, returns='tuple[int,int,int,float|int]',
   requires=['chars_hold(value, 0, len(value), is_hex) or value == "t"'],
   ensures=['0 <= result[0] and result[0] <= 255 and 0 <= result[1] and result[1] <= 255 and 0 <= result[2] and result[2] <= 255'],
   modifies=[],
   note='leaf string builder (hex digit duplication, rjust, int(s, 16), float()): contract trusted here, '
        'decided completely by the finite-domain clause of C05 (every 1/2/3/6-digit colour form)')

fn(CM + ':color_value', props=PC, params={'scanner': 'Scanner'}, returns='ColorValue|CssLiteral|None',
   requires=WFP, ensures=cconsumer(), modifies=['scanner.pos', 'scanner.start'], allocates=True)

define('ctok_span_ok', ['t'], 't.start is not None and t.end is not None and 0 <= t.start and t.start < t.end')
CTILES = ['forall(0, len(result), lambda i: ctok_span_ok(result[i]))',
          'forall(0, len(result) - 1, lambda i: result[i].end == result[i + 1].start)',
          'len(result) == 0 or result[0].start == 0']

fn(CM + ':merge_tokens', props=PC, params={'scanner': 'Scanner', 'token_list': 'list[CssToken]'}, returns='none',
   requires=['wf(scanner)',
             'forall(0, len(token_list), lambda i: ctok_span_ok(token_list[i]))',
             'forall(0, len(token_list) - 1, lambda i: token_list[i].end == token_list[i + 1].start)',
             'len(token_list) == 0 or token_list[0].start == 0',
             'len(token_list) == 0 or token_list[len(token_list) - 1].end <= scanner.end'],
   # pops a suffix spanning [a, b) and appends one token with exactly that span, or changes nothing
   ensures=['forall(0, len(token_list), lambda i: ctok_span_ok(token_list[i]))',
            'forall(0, len(token_list) - 1, lambda i: token_list[i].end == token_list[i + 1].start)',
            'len(token_list) == 0 or token_list[0].start == 0',
            '(len(token_list) == 0) == (old(len(token_list)) == 0)',
            'len(token_list) == 0 or token_list[len(token_list) - 1].end == old(token_list[len(token_list) - 1].end)'],
   modifies=['token_list[*]'], allocates=True,
   loops={0: {'anchor': 'while token_list',
              'invariant': ['forall(0, len(token_list), lambda i: ctok_span_ok(token_list[i]))',
                            'forall(0, len(token_list) - 1, lambda i: token_list[i].end == token_list[i + 1].start)',
                            'len(token_list) == 0 or token_list[0].start == 0',
                            'len(token_list) <= old(len(token_list))',
                            # nothing popped yet (end == 0), or [start, end) is exactly the popped suffix
                            'end == 0 or end == old(token_list[len(token_list) - 1].end)',
                            '(end == 0) == (len(token_list) == old(len(token_list)))',
                            'end == 0 or start < end', 'end != 0 or start == 0', 'end >= 0',
                            'end == 0 or (len(token_list) == 0 and start == 0) or '
                            '(len(token_list) > 0 and token_list[len(token_list) - 1].end == start)',
                            'forall(0, len(token_list), lambda i: token_list[i] is old(token_list[i]))'],
              'decreases': 'len(token_list)'}})

fn(CM + ':tokenize', props=PC, params={'abbr': 'str', 'is_value': 'bool'}, returns='list[CssToken]',
   requires=[],
   ensures=['fresh(result)'] + CTILES +
           ['(len(result) == 0 and len(abbr) == 0) or (len(result) > 0 and result[len(result) - 1].end == len(abbr))'],
   raises=['ScannerException'], ensures_on_raise=['0 <= exc.pos', 'exc.pos <= len(abbr)'],
   modifies=[], allocates=True,
   locals={'result': 'list[CssToken]', 'token': 'CssToken|None'},
   loops={0: {'anchor': 'while not scanner.eof()', 'writes': 'fresh',
              'invariant': ['wf(scanner)', 'scanner.pos <= scanner.end', 'scanner.end == len(abbr)',
                            'same_str(scanner.string, abbr)', 'fresh(result)', 'fresh(scanner)'] + CTILES +
                           ['(len(result) == 0 and scanner.pos == 0) or '
                            '(len(result) > 0 and result[len(result) - 1].end == scanner.pos)'],
              'decreases': 'scanner.end - scanner.pos'}})
