"""gen_manifest.py -- writes MANIFEST.json from manifest_data.LEVELS (run after editing it)."""
import json
from manifest_data import LEVELS

props = [json.loads(l) for l in open('properties.jsonl')]
BASE = 'cd /repo && /venv/bin/python -m pytest -ra -q -p no:cacheprovider --timeout=900 --continue-on-collection-errors'
m = {
    'version': 1,
    'setup_cmd': 'python3-vt check.py --selfcheck',
    'hooks': {'guard': 'EMMET_VERIF',
              'enable': 'no hooks: contracts are sidecar files under /verif/contracts; the real source is re-read from /repo on every run',
              'baseline_off_cmd': BASE, 'source_commits': [], 'add_only': True},
    'engines': [{'name': 'pyvc', 'path': 'pyvc/', 'serves_properties': sorted(LEVELS),
                 'kind_free_text': 'verification-condition generator over the real Python AST + z3/cvc5; sidecar contracts in contracts/'},
                {'name': 'bounded', 'path': 'bounded/', 'serves_properties': sorted(LEVELS),
                 'kind_free_text': 'finite-domain enumeration (complete) and bounded stand-in runs on the real code under /venv/bin/python'}],
    'checks': [],
    'not_applicable': [],
    'notes': 'exit codes: 0 held on everything explored (UNDECIDED lines, if any, are printed and shown in the evidence as discharged < obligations; never a violation), 1 VIOLATION (replayed input, or a named obligation with no-failing-input-found), 3 checker crash (never a verdict). See DESIGN.md section 4.',
}
for p in props:
    pid = p['id']
    L = LEVELS.get(pid)
    if L is None:
        m['not_applicable'].append({'property_id': pid, 'reason': 'not claimed yet: machinery under construction (plan in DESIGN.md section 7)'})
        continue
    m['checks'].append({
        'property_id': pid,
        'quick_cmd': 'python3-vt check.py %s --tier quick' % pid,
        'thorough_cmd': 'python3-vt check.py %s --tier thorough' % pid,
        'evidence_file': 'evidence/%s.json' % pid,
        'replay_cmd_template': 'python3-vt check.py %s --replay {path}' % pid,
        'engine': 'pyvc',
        'level_claimed': {'category': L['category'], 'text': L['text'], 'design_ref': L['design_ref']},
        'level_note': L['note'],
        'technique': L['technique'],
    })
json.dump(m, open('MANIFEST.json', 'w'), indent=1)
print('checks:', [c['property_id'] for c in m['checks']])
