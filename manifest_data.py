"""Per-property level claimed; the single source for MANIFEST.json (gen_manifest.py) and evidence."""

TECH = 'contract-based deductive verification: sidecar contracts on the real source, VCs generated from the AST (pyvc), discharged by z3/cvc5'

LEVELS = {
    'C16': {
        'category': 'other',
        'text': 'Range well-formedness and exception freedom of the scanners, the CSS structure scan, the attribute parser and '
                'the value splitter are proved for all inputs by discharged verification conditions over the real function '
                'bodies (loop invariants, callback contracts, index-safety obligations). The relational HTML clause (match == '
                'balanced_outward[0], nesting of entries) and functions not yet under contract are covered by an exhaustive '
                'small-scope run, labelled bounded and not counted as proved.',
        'design_ref': 'DESIGN.md section 7 (C16)',
        'note': 'Trusted: the pyvc VC generator and its encoding of the Python subset (DESIGN.md 1.3), z3/cvc5, CPython for the '
                'bounded part; callbacks are assumed not to mutate scanner-internal objects.',
        'technique': TECH + '; bounded stand-in: exhaustive strings up to length 4/5 over an 12-letter alphabet, all positions',
        'clauses': 'P: Scanner.*, css scan/literal/comment/whitespace, ...; B: html-exhaustive, css-exhaustive.',
    },
    'C18': {
        'category': 'proof',
        'text': 'Both tokenizers are under contract function by function (24 functions of the real source): every consumer '
                'either returns None without consuming or a fresh token spanning exactly what it consumed; the main loops '
                'carry the tiling invariant (spans defined, non-empty, contiguous, first at 0, last at the cursor); '
                'merge_tokens replaces a suffix by one token with the same span; the only escaping exception is the scanner '
                'error with 0 <= pos <= len(input); int()/float() conversions are safe by the digit / number-shape '
                'postconditions. All verification conditions are discharged for every input and every iteration. An '
                'exhaustive small-scope run of the real tokenizers cross-checks the proof and is not counted as proved.',
        'design_ref': 'DESIGN.md section 7 (C18)',
        'note': 'Trusted: pyvc encoding of the Python subset; axioms A-decimal, A-int, A-floatstr about CPython string '
                'conversions; the contract of css parse_color (leaf string builder: exception freedom assumed, checked at run '
                'time by the bounded clause and completely for 1-3 digit colours by C05); z3.',
        'technique': TECH + '; cross-check: exhaustive strings up to length 4 over two 19-letter alphabets',
        'clauses': 'P: all of abbreviation/tokenizer and css_abbreviation/tokenizer except parse_color (trusted).',
    },
}
