"""Per-property level claimed; the single source for MANIFEST.json (gen_manifest.py) and evidence."""

TECH = 'contract-based deductive verification: sidecar contracts on the real source, VCs generated from the AST (pyvc), discharged by z3/cvc5'

LEVELS = {
    'C16': {
        'category': 'other',
        'text': 'Proved for all inputs: range well-formedness and exception freedom of the scanners, the CSS structure scan (callback contract), the attribute parser, value splitter, css match/balanced_outward; HTML tag shape, name position and increasing order (callback contract with ghost state); html match/balanced_outward well-formed, containing the position, successive outward entries strictly nested. The relational clause match == balanced_outward[0] and balanced_inward are a bounded stand-in: exhaustive character strings and token-sequence documents, all positions.',
        'design_ref': 'DESIGN.md section 7 (C16)',
        'note': 'Trusted: the pyvc VC generator and its encoding of the Python subset (DESIGN.md 1.3), z3/cvc5, CPython for the '
                'bounded part; callbacks are assumed not to mutate scanner-internal objects.',
        'technique': TECH + '; bounded stand-in: exhaustive strings up to length 4/5 over an 12-letter alphabet, all positions',
        'clauses': 'P: Scanner.*, css scan/literal/comment/whitespace, ...; B: html-exhaustive, css-exhaustive; added in the third session: html-token-sequences, css-token-sequences, html-special-attributed, html-random-attributed-mutated.',
    },
    'C18': {
        'category': 'proof',
        'text': 'Both tokenizers are under contract function by function (24 functions of the real source): every consumer '
                'either returns None without consuming or a fresh token spanning exactly what it consumed; the main loops '
                'carry the tiling invariant (spans defined, non-empty, contiguous, first at 0, last at the cursor); '
                'merge_tokens replaces a suffix by one token with the same span; the only escaping exception is the scanner '
                'error with 0 <= pos <= len(input); int()/float() conversions are safe by the digit / number-shape '
                'postconditions. All verification conditions are discharged for every input and every iteration. An '
                'exhaustive small-scope run of the real tokenizers cross-checks the proof and is not counted as proved.',
        'design_ref': 'DESIGN.md section 7 (C18)',
        'note': 'Trusted: pyvc encoding of the Python subset; axioms A-decimal, A-int, A-floatstr about CPython string '
                'conversions; the contract of css parse_color (leaf string builder: exception freedom assumed, checked at run '
                'time by the bounded clause and completely for 1-3 digit colours by C05); z3.',
        'technique': TECH + '; cross-check: exhaustive strings up to length 4 over two 19-letter alphabets',
        'clauses': 'P: all of abbreviation/tokenizer and css_abbreviation/tokenizer except parse_color (trusted); added in the third session: markup-exhaustive, stylesheet-exhaustive, markup-random, stylesheet-random.',
    },
    'C05': {
        'category': 'other',
        'text': 'Deductive part: the stylesheet tokenizer functions that recognise numbers, units, colours and the forced dash are under contract and proved (consume_number accepts exactly the documented number shapes, tokens span what they consumed); the stylesheet parser terminates and raises only its own error. Complete finite-domain clauses: every colour channel 0..255 through to_hex/to_short_hex, every 1/2/3-digit colour form. The printed property line (units, aliases, !important, separators) is a bounded stand-in against an executable reading of the statement.',
        'design_ref': 'DESIGN.md section 7 (C05)',
        'note': 'Trusted: pyvc encoding; parse_color contract (decided by the finite-domain clause for 1-3 digits, bounded for 6); CPython for enumeration.',
        'technique': TECH + '; finite-domain enumeration of colour channels/forms; bounded stand-in: exhaustive value sequences up to 3 values x syntaxes x options',
        'clauses': 'P: css tokenizer (shared with C18); F: hex-channel, color-short-forms; B: value-sequences, conventions-options, plus-pairs, random-long, dict-config, color-six-digit; added in the third session: number-magnitudes, alpha-precision.',
    },
    'C06': {
        'category': 'other',
        'text': 'Proved for arbitrary tables: find_best_match returns the first item whose key equals the abbreviation with score 1, otherwise the last item of maximal non-zero score if it reaches min_score, otherwise None (calculate_score abstracted to a deterministic value in [0,1]). The main quantifier of the property is finite (every key and dash-free keyword of the built-in table x syntaxes x scopes) and is decided by complete enumeration on the real code; user tables are a bounded stand-in.',
        'design_ref': 'DESIGN.md section 7 (C06)',
        'note': 'Trusted: CPython for enumeration. Known finding KF-C06-LG (gradient shortcut lg) is reported, not suppressed for other inputs.',
        'technique': TECH + '; complete finite-domain enumeration of the built-in snippet table; bounded stand-in for user tables',
        'clauses': 'P: stylesheet.find_best_match; F: builtin-keys, builtin-keys-scoped, builtin-keywords, user-override-builtin; B: user-tables, user-case-keys; added in the third session: builtin-inner-keywords, user-keywords, history-independence, global-config-tables, sibling-keyword-history.',
    },
    'C09': {
        'category': 'other',
        'text': 'Deductive part (shared with C16): html scan reports only well-formed tag ranges that start with <, end with >, carry the name, in increasing order; match()/balanced_outward() return well-formed open/close ranges with close after open that strictly contain the position; the ranges of match() and of every entry of balanced_outward() slice exactly to the tags (the open range is the text <name ...>, the close range the text </name> with the same name) and every attribute range lies inside the open tag; get_attributes() shifts every attribute range exactly once and the ranges slice to name and value lengths; all proved for every input. Innermost-ness against the document structure (equivalence with a second parser) is a bounded stand-in: documents generated from random trees with recorded ground truth, every position.',
        'design_ref': 'DESIGN.md section 7 (C09)',
        'note': 'Trusted: pyvc encoding; is_special and ScannerOptions contracts (user supplied tables are opaque); callbacks do not mutate scanner-internal objects.',
        'technique': TECH + '; bounded stand-in: generated documents with ground truth (300 trees quick / 5000 thorough, all positions) + exhaustive tiny forests',
        'clauses': 'P: html_matcher utils/attributes/scan/match/balanced_outward closures; B: html-tree-html, html-tree-xml, html-tiny-exhaustive; added in the third session: html-edge-html, html-edge-xml, html-edge-tiny-exhaustive.',
    },
    'C10': {
        'category': 'other',
        'text': 'Deductive part (shared with C16): the CSS structure scan reports only well-formed ranges and delimiters (callback contract proved for all inputs after four repairs), match()/balanced_outward() build well-formed ranges from them including the delimiter == -1 case, inner_range/split_value are proved; a string literal is closed only by the quote that opened it, a line break or the end of input. The callback contract also fixes the token types, their delimiters and their order (ghost state), from which match() is proved to return a range that strictly contains the position, a rule that ends with its closing brace with the body between the braces, and a declaration whose value lies inside it. Innermost-ness and the balanced lists against ground truth are a bounded stand-in (generated nested stylesheets, every position).',
        'design_ref': 'DESIGN.md section 7 (C10)',
        'note': 'Trusted: pyvc encoding. Known findings KF-C10-P (delimiters inside parentheses) and KF-C10-L (leading selector colons) are genuine defects recorded, not repaired.',
        'technique': TECH + '; bounded stand-in: generated stylesheets with ground truth, all positions + exhaustive tiny documents',
        'clauses': 'P: css_matcher scan/literal/comment/match/balanced_outward/inner_range/split_value; B: css-tree, css-outward-later-rules, css-declaration-tail, css-tiny-exhaustive, probes; added in the third session: css-outward-later-rules-probe, css-declaration-tail-probe, css-paren-delimiters-probe, css-leading-colon-probe, css-string-quotes, css-string-exhaustive, css-nested-parens, css-nested-parens-exhaustive.',
    },
    'C17': {
        'category': 'other',
        'text': 'Deductive part (shared with C16/C09/C10): the scanners, the attribute parser, get_attributes range shifting and split_value that the action helpers are built from are proved. The helpers themselves are proved for all inputs against range contracts: get_open_tag returns a tag of the source that strictly contains the position, carries its name, with every attribute range shifted by the tag start exactly once and inside the tag; value_range drops exactly the quotes or braces; class tokens are the maximal white-space-free words; every range of select_item_html is non-empty and inside the tag; get_css_section returns a rule around the position with the braces right outside its body and, on request, declarations whose name, value, tokens, before and after lie in order inside the body; select_item_css items and ranges lie inside the source on the requested side of the position. Which tag / rule / item is chosen among several (innermost, next, previous) and exact agreement with recorded ground truth are the bounded stand-in: generated documents with recorded attribute / class-token / declaration / value-token ranges, every position.',
        'design_ref': 'DESIGN.md section 7 (C17)',
        'note': 'Trusted: pyvc encoding; CPython for the bounded part.',
        'technique': TECH + '; bounded stand-in: generated HTML/CSS documents with ground truth for every range the helpers report',
        'clauses': 'P: shared scanner/matcher functions, action_utils utils/html/css (19 functions and 7 closures); B: html-actions, css-actions, css-section-unterminated, tiny-exhaustive families; added in the third session: html-actions-value-shapes, html-actions-value-shapes-small-exhaustive, css-section-unterminated-probe, html-actions-tiny-exhaustive, css-actions-tiny-exhaustive.',
    },
    'C20': {
        'category': 'other',
        'text': 'Proved for arbitrary dictionaries: merged_data yields, for every key, the value of the most specific layer defining it in the documented order (six abstract layers), layers not mentioning a key leave it untouched, an unknown syntax falls back to the remaining layers, and nothing but the fresh result is written; Config.__init__ builds every field from those layers. Complete finite-domain clauses on the real Config: every known syntax x every subset of the five overriding layers, documented defaults. Observation through expand() is a bounded stand-in.',
        'design_ref': 'DESIGN.md section 7 (C20)',
        'note': 'Trusted: CPython for enumeration.',
        'technique': TECH + '; complete enumeration of the layer-subset grid on the real Config; bounded stand-in through expand()',
        'clauses': 'P: config.merged_data, Config.__init__; F: config-layers, unknown-syntax, documented-defaults; B: expand-layers, random-layers.',
    },
    'C01': {
        'category': 'other',
        'text': 'Proved for all inputs: the implicit-name table of the statement (resolve_implicit_tag against li/tr/td/option/span/div for an arbitrary configured inline list; get_parent_element returns the closest element ancestor) and the markup tokenizer that feeds the parser; the parser itself is proved to terminate and to build a fresh tree without run-time errors (children are attached only by the statement loop, a climb below the top level is clamped by the len(stack) test); the converters that unroll the tree (convert_statement / convert_group / convert_element) are proved to leave the tree built by the parser unmodified, to put the repeater of every statement back and to return freshly built node lists. The element tree denoted by > + ^ groups and *N is built by mutually recursive list-splicing code; that it equals the denoted tree is decided by a bounded stand-in: every operator skeleton up to 4-5 elements printed FROM the tree, expanded under six configurations and compared by an independent tag parser; random skeletons up to 40 elements.',
        'design_ref': 'DESIGN.md section 7 (C01)',
        'note': 'Trusted: CPython for the bounded part; the independent tag parser / executable spec of the bounded oracle.',
        'technique': TECH + '; bounded stand-in: exhaustive operator skeletons + random large trees',
        'clauses': 'P: implicit_tag.resolve_implicit_tag, get_parent_element, abbreviation tokenizer, markup parser (safety, termination), converters (frame, stack discipline); B: skeleton-exhaustive, implicit-name-table, climb-clamp, random-large; added in the third session: self-closing-parents, snippet-call-histories.',
    },
    'C02': {
        'category': 'other',
        'text': 'Deductive part: recognition of repeater and numbering tokens (tokenizer repeater(), repeater_number(): implicit iff no digits, size == number of $, defaults without @) is proved for all inputs. The copy loop is under contract (convert_statement with convert_group / convert_element / attach_repeater / clone_repeater / insert_text, and stringify RepeaterNumber / RepeaterPlaceholder): with a ghost counter of completed copies, X*N completes exactly N copies (the number of non-blank lines for an implicit repeater over wrapped lines) unless the maxRepeat guard runs out, in which case at least one copy is made and a repeater entered with the guard used up makes exactly one; every copy is charged to the guard; while a copy is converted the top of the counter stack is the own running repeater of the statement with its copy number in [0, N); at exit the counter stack is back exactly as found (same list, same repeaters, same fields), node.repeat is back in place, and nothing of the tree built by the parser is modified (frame); `$#` only reads the stack. What stays a bounded stand-in: the counters seen through nested groups and the total order of completed copies across recursive calls: exhaustive small grammar (N in 1..4, two nesting levels, all numbering forms, every maxRepeat) against an executable reading of the statement.',
        'design_ref': 'DESIGN.md section 7 (C02)',
        'note': 'Trusted: CPython for the bounded part; the independent tag parser / executable spec of the bounded oracle. Assumed contracts (trusted=True): AbbreviationNode.__init__ and convert_attribute (names and values are rendered through stringify(), a globals()-based dispatch outside the verified subset), ConvertState.get_text (caller data), convert.some. Assumed typing at the module boundary: the parser stores Repeater tokens in .repeat (class view CvTokenElement/CvTokenGroup). The converters\' frame names two output-node fields class-wide (AbbreviationNode::value, AbbreviationNode::repeat).',
        'technique': TECH + '; bounded stand-in: exhaustive repeater grammar + random',
        'clauses': 'P: tokenizer repeater/repeater_number; convert.convert_statement (ensures_local over the ghost copy counter), convert_group, convert_element, attach_repeater, clone_repeater, insert_text, deepest_node; stringify.RepeaterNumber, RepeaterPlaceholder; B: copies-maxrepeat, numbering-forms, random-beyond; added in the third session: numbering-beside-placeholders, random-placeholders, numbering-in-attribute-names, random-attribute-names, maxrepeat-call-history, random-call-histories.',
    },
    'C03': {
        'category': 'other',
        'text': 'Proved: merge_declarations (for a repeated non-class attribute the last mention wins, the first under output.reverseAttributes; implied/boolean sticky, expression type kept). The rest (order of first mention, class joining, quoting, booleans, name mapping) is a bounded stand-in: exhaustive sequences of up to 4 attribute mentions x syntaxes x attribute options, read back by an independent parser and compared with an executable reading of the statement.',
        'design_ref': 'DESIGN.md section 7 (C03)',
        'note': 'Trusted: CPython for the bounded part; the independent tag parser / executable spec of the bounded oracle.',
        'technique': TECH + '; bounded stand-in: exhaustive attribute mention sequences',
        'clauses': 'P: markup.attributes.merge_declarations; B: attr-sequences-exhaustive, attr-options-exhaustive, attr-owner-element; added in the third session: attr-snippet-elements-and-cache, attr-doubled-shorthand-name-maps, attr-modifier-combinations, attr-name-case, attr-value-quote-characters.',
    },
    'C04': {
        'category': 'other',
        'text': 'Deductive part: the context-sensitive literal scanning of the tokenizer (literal(), is_allowed_operator/space/repeater) is under contract and proved to tile the input; insert_text puts wrapped text at the very end of the value of the node (appended to a trailing string, else as a new last item) and `$#` takes the line of the closest implicit repeater (last implicit one on the counter stack), both proved. Verbatim placement end to end is a bounded stand-in: exhaustive text payloads up to length 3-4 over the punctuation alphabet inside {..}, quoted/unquoted attribute values and wrap lines (incl. blank lines, lines that look like syntax, unicode line separators).',
        'design_ref': 'DESIGN.md section 7 (C04)',
        'note': 'Trusted: CPython for the bounded part; the independent tag parser / executable spec of the bounded oracle.',
        'technique': TECH + '; bounded stand-in: exhaustive text payloads and wrap lists',
        'clauses': 'P: tokenizer literal and context predicates, convert.insert_text, stringify.RepeaterPlaceholder; B: inline-text-exhaustive, attr-text-exhaustive, wrap-implicit-repeater, wrap-whole-text, text-unicode-line-separators; added in the third session: wrap-implicit-generated, self-closing-element-text.',
    },
    'C07': {
        'category': 'other',
        'text': 'Deductive part: both tokenizers raise only ScannerException with 0 <= pos <= len(input) (proved, shared with C18), Scanner.error builds the exception with the reported position. Both parsers (abbreviation/parser, css_abbreviation/parser, over token_scanner) are proved for every token list: every loop and the mutual recursion statements/group and consume_value/consume_arguments terminate (lexicographic measure on the tokens left), no IndexError/AttributeError/TypeError is possible, the only exception that escapes is TokenScannerException, and its position, when present, is the start of one of the tokens (which the tokenizer contract places inside the input). The rest of the pipeline (converter, formatters, resolvers) is covered by a bounded stand-in: all strings up to length 3-4 over 20-character alphabets, prefixes and single-character mutations of every abbreviation in tests/README, x syntaxes x option sets, with a CPU-time guard standing in for termination.',
        'design_ref': 'DESIGN.md section 7 (C07)',
        'note': 'Trusted: CPython for the bounded part; the independent tag parser / executable spec of the bounded oracle.',
        'technique': TECH + '; bounded stand-in: exhaustive short inputs + corpus prefixes/mutations x configurations',
        'clauses': 'P: Scanner.error, both tokenizers, TokenScanner, markup parser (12 functions), stylesheet parser (5 functions); B: 13 clauses (markup/stylesheet exhaustive, prefixes, mutations, snippet names, random); added in the third session: markup-exhaustive-full, markup-exhaustive-mid, markup-exhaustive-long, markup-prefixes, markup-mutations, markup-snippet-names, markup-random, stylesheet-exhaustive-full, stylesheet-exhaustive-long, stylesheet-nocache, stylesheet-prefixes-mutations, stylesheet-snippet-keys, stylesheet-random, markup-foreign-short, markup-foreign-corpus, markup-foreign-random, stylesheet-foreign-short, stylesheet-foreign-corpus, stylesheet-foreign-random.',
    },
    'C08': {
        'category': 'other',
        'text': 'Whole-history statement, reduced in DESIGN.md to frame/ownership obligations. Proved: config.merged_data writes nothing but its fresh result (built-in tables and caller dictionaries untouched, arbitrary dictionaries); Config.__init__ never writes the dictionary of the caller; markup.parse puts the text entry of the user_config of the caller back on every normal and exceptional exit (try/finally modelled). Histories are a bounded stand-in: sequences of 2-4 calls (shared cache, shared config object, failing calls) followed by a probe compared with the same probe in a fresh interpreter; growth of module-level containers, default arguments and live emmet objects is monitored.',
        'design_ref': 'DESIGN.md section 7 (C08)',
        'note': 'Trusted: CPython for the bounded part; the independent tag parser / executable spec of the bounded oracle.',
        'technique': TECH + '; bounded stand-in: call histories vs fresh-interpreter reference, retention monitor',
        'clauses': 'P: merged_data frame, Config.__init__, markup.parse restores text on every exit; B: markup-shared-cache, raise-inside-resolution, shared-cache, shared-config-object, independent-calls, random-histories, no-retention; added in the third session: markup-option-switch, snippet-value-units, context-switch, snippet-table-switch, function-arguments.',
    },
    'C11': {
        'category': 'other',
        'text': 'Deductive part, proved for every line, position and option record: extract_abbreviation() returns None or a result with 0 <= start <= location <= end <= len(line), abbreviation == line[location:end], no leading > + ^ *, the configured prefix found at start with the abbreviation to its right, the end moved by look-ahead only across one quote and closing brackets; is_html() is an observer (cursor restored); every backward consumer stays within [start, pos] and terminates; a quoted attribute value consumed by the tag heuristic starts and ends with the same quote character. The round trip (a valid abbreviation is extracted exactly) compares with an independent grammar and is a bounded stand-in.',
        'design_ref': 'DESIGN.md section 7 (C11)',
        'note': 'Trusted: pyvc encoding; external contract for re.sub(r"^[*+>^]+", "", s) (suffix starting at the first other character).',
        'technique': TECH + '; bounded stand-in: grammar-generated abbreviations x left/right contexts',
        'clauses': 'P: all of extract_abbreviation (reader, is_html, __init__); B: consistency-exhaustive (cross-check), roundtrip-* clauses; added in the third session: consistency-narrow, roundtrip-markup, roundtrip-markup-random, roundtrip-stylesheet, roundtrip-tag-lookalike, roundtrip-left-tag-unquoted, roundtrip-stylesheet-function-args, roundtrip-markup-attr-text, roundtrip-after-tag-quoted-text.',
    },
    'C12': {
        'category': 'other',
        'text': 'Proved: get_indent is 0 or 1 (0 without parent), the output stream keeps its offset invariant and level under every push. A contract for html.element (level restored on every path) was attempted and withdrawn (solver unknown, DESIGN.md 11.3). Cosmetic-ness of the options, indentation == depth and self-closing exactness are bounded stand-ins comparing the same abbreviation under pairs of option assignments.',
        'design_ref': 'DESIGN.md section 7 (C12)',
        'note': 'Trusted: CPython for the bounded part; the independent tag parser / executable spec of the bounded oracle.',
        'technique': TECH + '; bounded stand-in: option-pair comparisons, indentation oracle',
        'clauses': 'P: format.html.get_indent, OutputStream.*; B: cosmetic-pairs, indent-equals-depth, selfclose-exact; added in the third session: cosmetic-pairs-context, indent-equals-depth-context, selfclose-exact-context, indent-multiline-text.',
    },
    'C13': {
        'category': 'other',
        'text': 'Proved for arbitrary callbacks: whenever output.field / output.text is invoked the offset it is given equals the total length pushed so far (representation invariant of OutputStream over all push operations), and push_tokens allocates tabstop numbers of one value inside [old counter, new counter) keeping the written differences. Line/column exactness and document-order numbering end to end are bounded stand-ins with recording callbacks in seven styles.',
        'design_ref': 'DESIGN.md section 7 (C13)',
        'note': 'Trusted: CPython for the bounded part; the independent tag parser / executable spec of the bounded oracle.',
        'technique': TECH + '; bounded stand-in: recording callbacks over generated abbreviations x newline/indent settings',
        'clauses': 'P: OutputStream._push/push/push_string/push_newline/push_indent/push_field, format.utils.push_tokens; B: callback-positions(-multiline-placeholder), tabstops-auto, tabstops-explicit; added in the third session: callback-positions-multiline-placeholder, tabstops-comment, callback-positions-multiline-literal, tabstops-empty-forms.',
    },
    'C14': {
        'category': 'other',
        'text': 'Proved: the cycle guard of resolve (the stack never holds a snippet twice, so nesting is bounded by the number of snippets) and the stack discipline (every invocation leaves the stack as it found it, across the recursive walk). Complete finite-domain clauses: every name of the built-in html/xsl/pug tables expands like its definition; every part of every a|b key maps to that key. Decorated aliases and random cyclic user tables are bounded stand-ins.',
        'design_ref': 'DESIGN.md section 7 (C14)',
        'note': 'Trusted: CPython for the bounded part; the independent tag parser / executable spec of the bounded oracle.',
        'technique': TECH + '; complete enumeration of the built-in snippet tables; bounded stand-in for decorated aliases and user tables',
        'clauses': 'P: markup.snippets resolve closure; F: snippet-keys, builtin-alias; B: alias-decorated, user-tables; added in the third session: alias-nested, alias-decorated-options, alias-after-history, self-rooted-definitions.',
    },
    'C15': {
        'category': 'other',
        'text': 'Proved: indent_format.element raises the level by one for a nested node and restores it on every path (the level leak after a self-closing or text-only node the property worries about is a failure of this postcondition); the attribute/value pushers are trusted helpers. One line per element at its depth, heads, multi-line text and equality with the HTML tree are bounded stand-ins over exhaustive skeletons x haml/pug/slim x indent strings.',
        'design_ref': 'DESIGN.md section 7 (C15)',
        'note': 'Trusted: CPython for the bounded part; the independent tag parser / executable spec of the bounded oracle.',
        'technique': TECH + '; bounded stand-in: exhaustive skeletons, head forms, text-only / self-closing placements',
        'clauses': 'P: format.indent_format.element; B: lines-skeleton-exhaustive, head-forms, text-only-self-closing-levels/-heads, random-large; added in the third session: text-only-self-closing-heads, class-count, line-break-kinds, random-wide-heads-line-breaks, implied-attributes, self-closing-parents, self-closing-parents-skeletons, random-self-closing-implied, deep-trees, write-histories.',
    },
    'C19': {
        'category': 'other',
        'text': 'Proved for all texts and in-range positions: math extract returns None or 0 <= start <= end <= len(text), the range contains only digits, dots, operators, parentheses and spaces, and look-ahead crosses only ) and spaces. Proved for all strings about the parser: consume_number accepts exactly d+ | d+.d+ | .d+ (so float() cannot fail), the precedence table (* above + and -, / and \\ above *, unary minus as tight as /), every open parenthesis adds 10 to the priority (ghost count of parentheses consumed), parse() terminates and leaves only through a result or its own MathExpressionException with a position inside the expression, order_tokens() neither drops nor invents tokens. Value and precedence (correctness of an operator-precedence algorithm) and the error clause are a bounded stand-in against an independent recogniser with exact Fraction arithmetic.',
        'design_ref': 'DESIGN.md section 7 (C19)',
        'note': 'Trusted: CPython for the bounded part; the independent tag parser / executable spec of the bounded oracle.',
        'technique': TECH + '; bounded stand-in: exhaustive token sequences vs independent evaluator',
        'clauses': 'P: math_expression.extract number/extract, parser consume_number/op1/op2/number/order_tokens/parse; B: evaluate-token-sequences(-narrow), evaluate-wellformed-deeper, evaluate-random, evaluate-strings, evaluate-intdiv-literals, extract-exhaustive; added in the third session: evaluate-token-sequences-narrow, evaluate-foreign-notation.',
    },
}
