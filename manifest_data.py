"""Per-property level claimed; the single source for MANIFEST.json (gen_manifest.py) and evidence."""

TECH = 'contract-based deductive verification: sidecar contracts on the real source, VCs generated from the AST (pyvc), discharged by z3/cvc5'

LEVELS = {
    'C16': {
        'category': 'other',
        'text': 'Range well-formedness and exception freedom of the scanners, the CSS structure scan, the attribute parser and '
                'the value splitter are proved for all inputs by discharged verification conditions over the real function '
                'bodies (loop invariants, callback contracts, index-safety obligations). The relational HTML clause (match == '
                'balanced_outward[0], nesting of entries) and functions not yet under contract are covered by an exhaustive '
                'small-scope run, labelled bounded and not counted as proved.',
        'design_ref': 'DESIGN.md section 7 (C16)',
        'note': 'Trusted: the pyvc VC generator and its encoding of the Python subset (DESIGN.md 1.3), z3/cvc5, CPython for the '
                'bounded part; callbacks are assumed not to mutate scanner-internal objects.',
        'technique': TECH + '; bounded stand-in: exhaustive strings up to length 4/5 over an 12-letter alphabet, all positions',
        'clauses': 'P: Scanner.*, css scan/literal/comment/whitespace, ...; B: html-exhaustive, css-exhaustive.',
    },
}
