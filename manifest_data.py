"""Per-property level claimed; the single source for MANIFEST.json (gen_manifest.py) and evidence."""

TECH = 'contract-based deductive verification: sidecar contracts on the real source, VCs generated from the AST (pyvc), discharged by z3/cvc5'

LEVELS = {
    'C16': {
        'category': 'other',
        'text': 'Range well-formedness and exception freedom of the scanners, the CSS structure scan, the attribute parser and '
                'the value splitter are proved for all inputs by discharged verification conditions over the real function '
                'bodies (loop invariants, callback contracts, index-safety obligations). The relational HTML clause (match == '
                'balanced_outward[0], nesting of entries) and functions not yet under contract are covered by an exhaustive '
                'small-scope run, labelled bounded and not counted as proved.',
        'design_ref': 'DESIGN.md section 7 (C16)',
        'note': 'Trusted: the pyvc VC generator and its encoding of the Python subset (DESIGN.md 1.3), z3/cvc5, CPython for the '
                'bounded part; callbacks are assumed not to mutate scanner-internal objects.',
        'technique': TECH + '; bounded stand-in: exhaustive strings up to length 4/5 over an 12-letter alphabet, all positions',
        'clauses': 'P: Scanner.*, css scan/literal/comment/whitespace, ...; B: html-exhaustive, css-exhaustive.',
    },
    'C18': {
        'category': 'proof',
        'text': 'Both tokenizers are under contract function by function (24 functions of the real source): every consumer '
                'either returns None without consuming or a fresh token spanning exactly what it consumed; the main loops '
                'carry the tiling invariant (spans defined, non-empty, contiguous, first at 0, last at the cursor); '
                'merge_tokens replaces a suffix by one token with the same span; the only escaping exception is the scanner '
                'error with 0 <= pos <= len(input); int()/float() conversions are safe by the digit / number-shape '
                'postconditions. All verification conditions are discharged for every input and every iteration. An '
                'exhaustive small-scope run of the real tokenizers cross-checks the proof and is not counted as proved.',
        'design_ref': 'DESIGN.md section 7 (C18)',
        'note': 'Trusted: pyvc encoding of the Python subset; axioms A-decimal, A-int, A-floatstr about CPython string '
                'conversions; the contract of css parse_color (leaf string builder: exception freedom assumed, checked at run '
                'time by the bounded clause and completely for 1-3 digit colours by C05); z3.',
        'technique': TECH + '; cross-check: exhaustive strings up to length 4 over two 19-letter alphabets',
        'clauses': 'P: all of abbreviation/tokenizer and css_abbreviation/tokenizer except parse_color (trusted).',
    },
    'C05': {
        'category': 'other',
        'text': 'Deductive part: the stylesheet tokenizer functions that recognise numbers, units, colours and the forced dash are under contract and proved (consume_number accepts exactly the documented number shapes, tokens span what they consumed). Complete finite-domain clauses: every colour channel 0..255 through to_hex/to_short_hex, every 1/2/3-digit colour form. The printed property line (units, aliases, !important, separators) is a bounded stand-in against an executable reading of the statement.',
        'design_ref': 'DESIGN.md section 7 (C05)',
        'note': 'Trusted: pyvc encoding; parse_color contract (decided by the finite-domain clause for 1-3 digits, bounded for 6); CPython for enumeration.',
        'technique': TECH + '; finite-domain enumeration of colour channels/forms; bounded stand-in: exhaustive value sequences up to 3 values x syntaxes x options',
        'clauses': 'P: css tokenizer (shared with C18); F: hex-channel, color-short-forms; B: value-sequences, conventions-options, plus-pairs, random-long, dict-config, color-six-digit.',
    },
    'C06': {
        'category': 'other',
        'text': 'The main quantifier of the property is finite (every key and every dash-free keyword of the built-in table, every stylesheet syntax, every scope) and is decided by complete enumeration on the real code; user tables are a bounded stand-in (random tables). The best-match search loop is planned under contract (DESIGN.md); until then nothing of C06 is counted as proved by VCs.',
        'design_ref': 'DESIGN.md section 7 (C06)',
        'note': 'Trusted: CPython for enumeration. Known finding KF-C06-LG (gradient shortcut lg) is reported, not suppressed for other inputs.',
        'technique': TECH + '; complete finite-domain enumeration of the built-in snippet table; bounded stand-in for user tables',
        'clauses': 'F: builtin-keys, builtin-keys-scoped, builtin-keywords, user-override-builtin; B: user-tables, user-case-keys.',
    },
    'C09': {
        'category': 'other',
        'text': 'Deductive part (shared with C16): html scan reports only well-formed tag ranges that start with <, end with >, carry the name, in increasing order; match()/balanced_outward() return well-formed open/close ranges with close after open that strictly contain the position; get_attributes() shifts every attribute range exactly once and the ranges slice to name and value lengths; all proved for every input. Innermost-ness against the document structure (equivalence with a second parser) is a bounded stand-in: documents generated from random trees with recorded ground truth, every position.',
        'design_ref': 'DESIGN.md section 7 (C09)',
        'note': 'Trusted: pyvc encoding; is_special and ScannerOptions contracts (user supplied tables are opaque); callbacks do not mutate scanner-internal objects.',
        'technique': TECH + '; bounded stand-in: generated documents with ground truth (300 trees quick / 5000 thorough, all positions) + exhaustive tiny forests',
        'clauses': 'P: html_matcher utils/attributes/scan/match/balanced_outward closures; B: html-tree-html, html-tree-xml, html-tiny-exhaustive.',
    },
    'C10': {
        'category': 'other',
        'text': 'Deductive part (shared with C16): the CSS structure scan reports only well-formed ranges and delimiters (callback contract proved for all inputs after four repairs), match()/balanced_outward() build well-formed ranges from them including the delimiter == -1 case, inner_range/split_value are proved. Innermost-ness and the balanced lists against ground truth are a bounded stand-in (generated nested stylesheets, every position).',
        'design_ref': 'DESIGN.md section 7 (C10)',
        'note': 'Trusted: pyvc encoding. Known findings KF-C10-P (delimiters inside parentheses) and KF-C10-L (leading selector colons) are genuine defects recorded, not repaired.',
        'technique': TECH + '; bounded stand-in: generated stylesheets with ground truth, all positions + exhaustive tiny documents',
        'clauses': 'P: css_matcher scan/literal/comment/match/balanced_outward/inner_range/split_value; B: css-tree, css-outward-later-rules, css-declaration-tail, css-tiny-exhaustive, probes.',
    },
    'C17': {
        'category': 'other',
        'text': 'Deductive part (shared with C16/C09/C10): the scanners, the attribute parser, get_attributes range shifting and split_value that the action helpers are built from are proved. The helpers themselves (get_open_tag, select_item_*, get_css_section) are so far covered by the bounded stand-in against generated documents with recorded attribute / class-token / declaration / value-token ranges.',
        'design_ref': 'DESIGN.md section 7 (C17)',
        'note': 'Trusted: pyvc encoding; CPython for the bounded part.',
        'technique': TECH + '; bounded stand-in: generated HTML/CSS documents with ground truth for every range the helpers report',
        'clauses': 'P: shared scanner/matcher functions; B: html-actions, css-actions, css-section-unterminated, tiny-exhaustive families.',
    },
    'C20': {
        'category': 'other',
        'text': 'Complete finite-domain clauses on the real Config: every known syntax x every subset of the five overriding layers x options/snippets/variables, unknown syntax fallback, documented defaults; built-in tables and caller dictionaries deep-compared before/after. Observation through expand() and random layer contents are bounded stand-ins. The merge function merged_data is planned under contract for arbitrary dictionaries (DESIGN.md).',
        'design_ref': 'DESIGN.md section 7 (C20)',
        'note': 'Trusted: CPython for enumeration.',
        'technique': TECH + '; complete enumeration of the layer-subset grid on the real Config; bounded stand-in through expand()',
        'clauses': 'F: config-layers, unknown-syntax, documented-defaults; B: expand-layers, random-layers.',
    },
}
