"""monitor.replay -- replay a deductive counterexample on the real code.

  /venv/bin/python -m monitor.replay --key <module:function> --model <json> [--budget S]

1. the model's entry values are turned into concrete arguments and the real function is run
   under its run-time contract (monitor.rt);
2. if that does not fail (counterexamples to induction name mid-loop states that may be
   unreachable), a short bounded search of the *same function* is made, seeded with the
   characters of the model and the character constants of the function's module.
Prints one JSON object: {"confirmed": bool, "call": {...}, "outcome": {...}, "tried": n}
"""
import argparse
import ast
import itertools
import json
import sys
import time

from . import rt
from pyvc.contracts import REG, parse_type


def module_chars(module):
    "single-character string constants of the module source (and of the Chars classes it imports)"
    out = []
    try:
        src = open(module.__file__, encoding='utf-8').read()
        for n in ast.walk(ast.parse(src)):
            if isinstance(n, ast.Constant) and isinstance(n.value, str) and len(n.value) == 1:
                if n.value not in out:
                    out.append(n.value)
    except Exception:
        pass
    for v in vars(module).values():
        if isinstance(v, type) and v.__name__ == 'Chars':
            for a, b in vars(v).items():
                if isinstance(b, str) and len(b) == 1 and b not in out:
                    out.append(b)
    return out


def model_strings(desc, out):
    if isinstance(desc, str):
        if not desc.startswith('<'):
            out.append(desc)
    elif isinstance(desc, dict):
        for v in desc.values():
            model_strings(v, out)
    elif isinstance(desc, (list, tuple)):
        for v in desc:
            model_strings(v, out)


def candidates(key, model, budget_s):
    c = REG.fns[key]
    m, f = rt.get_function(key)
    strs = []
    model_strings(model, strs)
    alpha = []
    # characters the module itself distinguishes come first, then the characters of the model
    for ch in module_chars(m)[:7]:
        if ch not in alpha:
            alpha.append(ch)
    for s in strs:
        for ch in s:
            if ch not in alpha and ch != '\ufffd' and len(alpha) < 9:
                alpha.append(ch)
    for ch in 'a ':
        if ch not in alpha and len(alpha) < 10:
            alpha.append(ch)
    maxlen = 4

    def strings():
        for n in range(0, maxlen + 1):
            for t in itertools.product(alpha, repeat=n):
                yield ''.join(t)

    names = list(c.params)
    types = {n: parse_type(t) for n, t in c.params.items()}
    # the declared parameter types are part of the precondition: the exhaustive phase is made only for functions
    # whose parameters it can enumerate (or for which the model supplies a value)
    for n in names:
        if types[n] not in (('str',), ('ref', 'Scanner'), ('int',), ('bool',)) and model.get(n) is None:
            if not (types[n][0] == 'union' and ('none',) in types[n][1]):
                return iter(())

    def gen(i, acc):
        if i == len(names):
            yield dict(acc)
            return
        n = names[i]
        T = types[n]
        mv = model.get(n)
        if T == ('str',):
            for s in strings():
                acc[n] = s
                yield from gen(i + 1, acc)
        elif T == ('ref', 'Scanner'):
            for s in strings():
                for pos in range(0, len(s) + 1):
                    acc[n] = {'__class__': 'Scanner', 'string': s, 'pos': pos, 'start': pos, 'end': len(s)}
                    yield from gen(i + 1, acc)
        elif T == ('int',):
            for k in range(-1, maxlen + 2):
                acc[n] = k
                yield from gen(i + 1, acc)
        elif T == ('bool',):
            for k in (False, True):
                acc[n] = k
                yield from gen(i + 1, acc)
        else:
            acc[n] = mv
            yield from gen(i + 1, acc)
    return gen(0, {})


class CannotGenerate(Exception):
    pass


def gen_value(T, rnd, alpha, depth=0):
    "a small random value description of contract type T (see rt.build_value)"
    k = T[0]
    if k == 'str':
        n = rnd.choice((0, 1, 2, 3, 3, 4, 5, 6, 7, 9))
        return ''.join(rnd.choice(alpha) for _ in range(n))
    if k in ('char', 'echar'):
        return rnd.choice(alpha)
    if k == 'int':
        return rnd.randint(-1, 9)
    if k == 'bool':
        return rnd.random() < 0.5
    if k == 'none':
        return None
    if k == 'float':
        return rnd.choice((0.0, 1.5, -2.0, 10.25))
    if k == 'enum':
        return rnd.choice(list(T[1]))
    if k == 'union':
        return gen_value(rnd.choice(list(T[1])), rnd, alpha, depth)
    if depth > 3:
        raise CannotGenerate(str(T))
    if k == 'list':
        return {'__list__': [gen_value(T[1], rnd, alpha, depth + 1) for _ in range(rnd.randint(0, 3))]}
    if k == 'tuple':
        return tuple(gen_value(t, rnd, alpha, depth + 1) for t in T[1])
    if k == 'ref':
        if T[1] == 'Scanner':
            s = gen_value(('str',), rnd, alpha)
            pos = rnd.randint(0, len(s))
            return {'__class__': 'Scanner', 'string': s, 'pos': pos, 'start': rnd.randint(0, pos), 'end': len(s)}
        cc = REG.classes.get(T[1])
        if cc is None:
            raise CannotGenerate(str(T))
        d = {'__class__': T[1]}
        for f, ft in cc.fields.items():
            d[f] = gen_value(parse_type(ft), rnd, alpha, depth + 1)
        return d
    if k == 'rec':
        flds = REG.recs.get(T[1])
        if flds is None:
            raise CannotGenerate(str(T))
        d = {'__rec__': T[1]}
        for f, ft in flds.items():
            if T[1] in REG.rec_optional and rnd.random() < 0.4:
                continue
            d[f] = gen_value(parse_type(ft), rnd, alpha, depth + 1)
        return d
    raise CannotGenerate(str(T))      # any / fn / pred / map: nothing sensible to invent


def import_chars(module):
    "character constants of the modules this module imports from (one level): its callees' alphabet"
    out = []
    for v in list(vars(module).values()):
        m2 = sys.modules.get(getattr(v, '__module__', None) or '')
        if m2 is not None and m2 is not module and getattr(m2, '__file__', '').startswith(rt.REPO):
            for ch in module_chars(m2):
                if ch not in out:
                    out.append(ch)
    return out


def random_candidates(key, seed=0):
    import random
    c = REG.fns[key]
    m, f = rt.get_function(key)
    alpha = []
    for ch in module_chars(m) + import_chars(m) + list('a 1'):
        if ch not in alpha and (ch.isprintable() or ch == '\n'):
            alpha.append(ch)
    alpha = alpha[:14]
    rnd = random.Random(seed)
    types = {n: parse_type(t) for n, t in c.params.items()}
    while True:
        yield {n: gen_value(T, rnd, alpha) for n, T in types.items()}


def enclosing(key):
    "closures are not addressable at run time: the enclosing function's contract is searched instead"
    if '.<locals>.' in key:
        outer = key.split('.<locals>.')[0]
        if outer in REG.fns:
            return outer
    return key


def run(key, model, budget_s=20.0):
    t0 = time.time()
    tried = 0
    key = enclosing(key)
    model = model or {}

    def attempt(desc):
        args = {}
        for n, v in desc.items():
            if n not in REG.fns[key].params:
                continue
            if isinstance(v, str) and v.startswith('<fn'):
                v = None
            args[n] = rt.build_value(v)
        return rt.call_checked(key, args)

    out = {'status': 'no-model'}
    if model:
        try:
            out = attempt(model)
            tried += 1
            if out['status'] == 'violation':
                return {'confirmed': True, 'call': {'key': key, 'args': model}, 'outcome': out, 'tried': tried,
                        'how': 'model'}
        except Exception as e:
            out = {'status': 'error', 'detail': repr(e)}
    first = out
    c = REG.fns.get(key)
    if c is None or c.trusted or c.inline:
        return {'confirmed': False, 'tried': tried, 'outcome': first, 'search_error': 'no executable contract for ' + key}
    # second half of the budget: random values of every declared parameter type (lists, objects, records)
    try:
        it = random_candidates(key)
        while time.time() - t0 < budget_s / 2.0:
            try:
                desc = next(it)
            except CannotGenerate:
                break
            tried += 1
            try:
                out = attempt(desc)
            except RecursionError:
                continue
            if out['status'] == 'violation':
                return {'confirmed': True, 'call': {'key': key, 'args': desc}, 'outcome': out, 'tried': tried,
                        'how': 'random search of the real function under its run-time contract'}
    except Exception as e:
        first = {'status': 'error', 'detail': 'random search: %r' % e}
    try:
        for desc in candidates(key, model, budget_s):
            if time.time() - t0 > budget_s:
                break
            tried += 1
            try:
                out = attempt(desc)
            except RecursionError:
                continue
            if out['status'] == 'violation':
                return {'confirmed': True, 'call': {'key': key, 'args': desc}, 'outcome': out, 'tried': tried,
                        'how': 'bounded search seeded with the model'}
    except Exception as e:
        return {'confirmed': False, 'tried': tried, 'outcome': first, 'search_error': repr(e)}
    return {'confirmed': False, 'tried': tried, 'outcome': first}


def main():
    ap = argparse.ArgumentParser()
    ap.add_argument('--key', required=True)
    ap.add_argument('--model', required=True)
    ap.add_argument('--budget', type=float, default=20.0)
    a = ap.parse_args()
    import contracts  # noqa  (registers the sidecar contracts)
    model = json.loads(a.model) if not a.model.startswith('@') else json.load(open(a.model[1:]))
    print(json.dumps(run(a.key, model, a.budget), default=repr))


if __name__ == '__main__':
    main()
