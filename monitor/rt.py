"""monitor.rt -- run-time reader of the *same* contract strings the VC generator proves.

Runs under /venv/bin/python (the interpreter of the test suite), stdlib only.  Used for
(1) replay of deductive counterexamples on the real code, (2) the bounded stand-in.

A clause is a Python expression; it is rewritten (ast) so that the spec vocabulary becomes
executable:  old(e) -> value captured at entry;  implies(a, b) -> (not a) or b;
forall(lo, hi, lambda i: p) -> all(...);  holds(m, ch);  same_str(a, b) -> a == b;
fresh(x) -> True (allocation is not observable at run time);  spec helpers (wf, peekc, ...)
-> inlined from their definitions.
"""
import ast
import copy
import importlib
import importlib.util
import os
import sys

REPO = os.environ.get('PYVC_REPO', '/repo')
if REPO not in sys.path:
    sys.path.insert(0, REPO)
if '/verif' not in sys.path:
    sys.path.insert(0, '/verif')

from pyvc.contracts import REG, parse_type  # noqa: E402


def load_module(modname):
    "import a repository module by *file path* (attribute shadowing makes getattr chains unsafe)"
    if modname in sys.modules and getattr(sys.modules[modname], '__file__', '').startswith(REPO):
        return sys.modules[modname]
    return importlib.import_module(modname)


def get_function(key):
    mod, qual = key.split(':', 1)
    m = load_module(mod)
    obj = m
    for part in qual.split('.'):
        if part == '<locals>':
            raise LookupError('nested functions are not addressable at run time: ' + key)
        obj = getattr(obj, part) if not isinstance(obj, dict) else obj[part]
    return m, obj


class _Rewrite(ast.NodeTransformer):
    def __init__(self, olds, lazy=None):
        self.olds = olds
        self.lazy = lazy if lazy is not None else []   # old() under a quantifier: evaluated in an entry snapshot
        self.bound = []
        self.identity = set()                           # indices of olds compared with `is`: kept as the object

    def visit_Lambda(self, node):
        names = [a.arg for a in node.args.args]
        self.bound.extend(names)
        node = self.generic_visit(node)
        del self.bound[len(self.bound) - len(names):]
        return node

    def visit_Compare(self, node):
        # `x is old(y)`: the entry value is wanted as the object itself (identity), never as a copy
        if len(node.ops) == 1 and isinstance(node.ops[0], (ast.Is, ast.IsNot)):
            for side in (node.left, node.comparators[0]):
                if isinstance(side, ast.Call) and isinstance(side.func, ast.Name) and side.func.id == 'old':
                    side._identity = True
        return self.generic_visit(node)

    def visit_Call(self, node):
        if isinstance(node.func, ast.Name):
            n = node.func.id
            if n == 'old':
                free = sorted({x.id for x in ast.walk(node.args[0]) if isinstance(x, ast.Name)} & set(self.bound))
                if free:
                    k = len(self.lazy)
                    self.lazy.append(node.args[0])
                    return ast.Call(func=ast.Name(id='__oldf', ctx=ast.Load()),
                                    args=[ast.Constant(k),
                                          ast.Dict(keys=[ast.Constant(v) for v in free],
                                                   values=[ast.Name(id=v, ctx=ast.Load()) for v in free])],
                                    keywords=[])
                k = len(self.olds)
                self.olds.append(node.args[0])
                if getattr(node, '_identity', False):
                    self.identity.add(k)
                return ast.Subscript(value=ast.Name(id='__old', ctx=ast.Load()),
                                     slice=ast.Constant(k), ctx=ast.Load())
            if n == 'implies':
                a, b = [self.visit(x) for x in node.args]
                return ast.BoolOp(op=ast.Or(), values=[ast.UnaryOp(op=ast.Not(), operand=a), b])
            if n == 'iff':
                a, b = [self.visit(x) for x in node.args]
                return ast.Compare(left=ast.Call(func=ast.Name(id='bool', ctx=ast.Load()), args=[a], keywords=[]),
                                   ops=[ast.Eq()],
                                   comparators=[ast.Call(func=ast.Name(id='bool', ctx=ast.Load()), args=[b], keywords=[])])
            if n == 'ite':
                c, a, b = [self.visit(x) for x in node.args]
                return ast.IfExp(test=c, body=a, orelse=b)
            if n in ('forall', 'exists'):
                lam = node.args[-1]
                var = lam.args.args[0].arg
                self.bound.append(var)
                body = self.visit(lam.body)
                self.bound.pop()
                if len(node.args) == 3:
                    lo, hi = self.visit(node.args[0]), self.visit(node.args[1])
                    it = ast.Call(func=ast.Name(id='range', ctx=ast.Load()), args=[lo, hi], keywords=[])
                else:
                    raise ValueError('unbounded quantifier is not executable')
                gen = ast.GeneratorExp(elt=body, generators=[ast.comprehension(
                    target=ast.Name(id=var, ctx=ast.Store()), iter=it, ifs=[], is_async=0)])
                return ast.Call(func=ast.Name(id='all' if n == 'forall' else 'any', ctx=ast.Load()),
                                args=[gen], keywords=[])
            if n in REG.defs:
                params, expr = REG.defs[n]
                args = [self.visit(x) for x in node.args]
                body = ast.parse(expr.strip(), mode='eval').body
                body = _Subst(dict(zip(params, args))).visit(body)
                return self.visit(body)
        return self.generic_visit(node)


class _Subst(ast.NodeTransformer):
    def __init__(self, m):
        self.m = m

    def visit_Name(self, node):
        if node.id in self.m:
            return copy.deepcopy(self.m[node.id])
        return node


def _holds(m, ch):
    return bool(m(ch)) if callable(m) else m == ch


import re as _re
_NUM = _re.compile(r'-?(\d+\.?\d*|\.\d+)\Z')

HELPERS = {
    'int_str': str,
    'numshape': lambda s, a, b: bool(_NUM.match(s[a:b])) and all(c in '-.' or c.isdecimal() for c in s[a:b]),
    'holds': _holds,
    'chars_hold': lambda s, a, b, m: all(_holds(m, s[i]) for i in range(a, b)),
    'same_str': lambda a, b: a == b,
    'occurs_at': lambda s, p, t: p >= 0 and s[p:p + len(t)] == t,
    'fresh': lambda x: True,
    'allocated': lambda x: True,
    'same': lambda a, b: a is b or (type(a) is type(b) and a == b),
    'owned': lambda *a: True,
    'has': lambda m, k: k in m,
    'at': lambda m, k: m[k],
    'mget': lambda m, k: m.get(k),
    'forall_keys': lambda m, f: all(f(k) for k in m),
    'kind_is': lambda v, k: {'none': v is None, 'int': isinstance(v, int), 'str': isinstance(v, str),
                             'ref': hasattr(v, '__slots__') or hasattr(v, '__dict__'),
                             'list': isinstance(v, list), 'tuple': isinstance(v, tuple),
                             'bool': isinstance(v, bool)}.get(k, False),
}


class Clause:
    def __init__(self, text):
        self.text = text
        self.olds = []
        self.lazy = []
        tree = ast.parse(text.strip(), mode='eval')
        rw = _Rewrite(self.olds, self.lazy)
        tree.body = rw.visit(tree.body)
        self.identity = rw.identity
        ast.fix_missing_locations(tree)
        self.code = compile(tree, '<contract>', 'eval')
        self.old_codes = []
        for o in self.olds:
            # old() expressions may themselves use helpers
            e = ast.Expression(body=_Rewrite([]).visit(copy.deepcopy(o)))
            ast.fix_missing_locations(e)
            self.old_codes.append(compile(e, '<old>', 'eval'))

        self.lazy_codes = []
        for o in self.lazy:
            e = ast.Expression(body=_Rewrite([]).visit(copy.deepcopy(o)))
            ast.fix_missing_locations(e)
            self.lazy_codes.append(compile(e, '<old>', 'eval'))

    def snapshot(self, env):
        """entry snapshot for old() under a quantifier: a deep copy of the data reachable from the
        environment; a result that is a copied object is mapped back to its original (the identity of
        an object does not change over a call, only its fields do)"""
        memo = {}
        snap = {}
        for k, v in env.items():
            if callable(v) or isinstance(v, type(ast)) or k.startswith('__'):
                snap[k] = v
            else:
                try:
                    snap[k] = copy.deepcopy(v, memo)
                except Exception:
                    snap[k] = v
        back = {}
        for o in memo.get(id(memo), []):
            cp = memo.get(id(o))
            if cp is not None and cp is not o:
                back[id(cp)] = o
        codes = self.lazy_codes

        def oldf(k, bound):
            e = dict(snap)
            e.update(bound)
            v = eval(codes[k], e)
            return back.get(id(v), v)
        return oldf

    def capture(self, env):
        out = []
        if self.lazy_codes:
            out.append(self.snapshot(env))
        else:
            out.append(None)
        for k_, c in enumerate(self.old_codes):
            try:
                v = eval(c, env)
                out.append(copy.deepcopy(v) if isinstance(v, (list, dict)) and k_ not in self.identity else v)
            except Exception as e:  # the old-expression may be undefined on this input
                out.append(e)
        return out

    def eval(self, env, olds=None):
        env = dict(env)
        olds = olds or [None]
        env['__oldf'] = olds[0]
        env['__old'] = olds[1:]
        return eval(self.code, env)


_clause_cache = {}


def clause(text):
    c = _clause_cache.get(text)
    if c is None:
        c = _clause_cache[text] = Clause(text)
    return c


class ContractFailure(Exception):
    def __init__(self, kind, text, detail=''):
        Exception.__init__(self, '%s: %s %s' % (kind, text, detail))
        self.kind = kind
        self.text = text
        self.detail = detail


def base_env(module):
    env = {k: v for k, v in vars(load_module('emmet.scanner_utils')).items() if callable(v)}
    env.update(vars(module))
    env.update(HELPERS)
    env['max'] = max
    env['min'] = min
    env['len'] = len
    return env


def build_value(desc, T=None):
    "concrete Python value from a model description (see pyvc.run.build_entry_info)"
    if isinstance(desc, dict):
        if '__list__' in desc:
            return [build_value(x) for x in desc['__list__']]
        if '__rec__' in desc:
            return {k: build_value(v) for k, v in desc.items() if not k.startswith('__')}
        if '__class__' in desc:
            cc = REG.classes.get(desc['__class__'])
            m = load_module(cc.module)
            klass = getattr(m, cc.real)
            obj = klass.__new__(klass)
            for k, v in desc.items():
                if k.startswith('__'):
                    continue
                try:
                    setattr(obj, k, build_value(v))
                except AttributeError:
                    pass
            return obj
    if isinstance(desc, list):
        return [build_value(x) for x in desc]
    if isinstance(desc, tuple):
        return tuple(build_value(x) for x in desc)
    return desc


def call_checked(key, args, callback_log=None):
    """run the real function `key` on concrete arguments under its contract.
    -> dict(status='ok'|'pre-false'|'violation', kind=..., clause=..., detail=...)"""
    c = REG.fns[key]
    m, f = get_function(key)
    env = base_env(m)
    env.update(args)
    # precondition: an input outside the contract is discarded, not a violation
    for r in c.requires:
        try:
            if not clause(r).eval(env):
                return {'status': 'pre-false', 'clause': r}
        except Exception as e:
            return {'status': 'pre-false', 'clause': r, 'detail': repr(e)}
    try:
        olds = {e: clause(e).capture(env) for e in c.ensures + c.ensures_on_raise}
    except Exception as e:
        return {'status': 'clause-error', 'kind': 'post', 'clause': '*', 'detail': 'clause not executable: %r' % e}
    # callback parameters: wrap so that the callback contract is checked at every invocation
    call_args = dict(args)
    cb_fail = []
    if c.callback:
        pname = c.callback['param']
        names = c.callback['args']
        user_cb = args.get(pname)
        # ghost state of the callee (document order, last delimiter, ...): initialised from the contract and
        # updated after every invocation exactly as the verifier does
        ghost = {}
        for g, (GT, init) in c.ghost.items():
            try:
                ghost[g] = eval(init, dict(env))
            except Exception:
                ghost[g] = None

        def cb(*a):
            cenv = dict(env)
            cenv.update(ghost)
            cenv.update(zip(names, a))
            for r in c.callback['requires']:
                try:
                    ok = clause(r).eval(cenv)
                except Exception as e:
                    ok = True       # a clause that cannot be evaluated at run time decides nothing
                if not ok:
                    cb_fail.append((r, a))
            for g, expr in c.callback.get('ghost_update', []):
                try:
                    ghost[g] = clause(expr).eval(cenv)
                except Exception:
                    pass
            if callback_log is not None:
                callback_log.append(a)
            if callable(user_cb):
                return user_cb(*a)
            return None
        call_args[pname] = cb
    try:
        result = f(**call_args)
    except Exception as e:
        name = type(e).__name__
        if cb_fail:
            return {'status': 'violation', 'kind': 'callback', 'clause': cb_fail[0][0],
                    'detail': 'callback%r' % (cb_fail[0][1],)}
        if name in c.raises:
            env2 = dict(env)
            env2['exc'] = e
            env2['result'] = e
            for en in c.ensures_on_raise:
                try:
                    ok = clause(en).eval(env2, olds[en])
                except Exception as e2:
                    return {'status': 'clause-error', 'kind': 'post-raise', 'clause': en, 'detail': 'clause raised %r' % e2}
                if not ok:
                    return {'status': 'violation', 'kind': 'post-raise', 'clause': en, 'detail': repr(e)}
            return {'status': 'ok', 'raised': name}
        return {'status': 'violation', 'kind': 'raises', 'clause': 'escaping %s not in %s' % (name, c.raises),
                'detail': repr(e)}
    if cb_fail:
        return {'status': 'violation', 'kind': 'callback', 'clause': cb_fail[0][0],
                'detail': 'callback%r' % (cb_fail[0][1],)}
    env2 = dict(env)
    env2['result'] = result
    for en in c.ensures:
        try:
            ok = clause(en).eval(env2, olds[en])
        except Exception as e:
            # a clause that cannot be evaluated at run time (spec-only vocabulary) decides nothing
            return {'status': 'clause-error', 'kind': 'post', 'clause': en, 'detail': 'clause raised %r' % e}
        if not ok:
            return {'status': 'violation', 'kind': 'post', 'clause': en, 'detail': 'result=%r' % (result,)}
    return {'status': 'ok', 'result': repr(result)[:200]}
