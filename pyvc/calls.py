"""pyvc.calls -- call semantics: contracts at call sites (modular), inlining of pure
predicates / closures / un-contracted loop-free helpers, builtins, spec forms."""
import ast
import z3

from . import loader
from .values import *
from .state import *
from .engine import MAX_INLINE_DEPTH, LIST_LEN, LIST_ETYPE, etype_id
from .execu import Exec, from_py, SPEC_FORMS
from .contracts import REG, parse_type, type_str


import itertools
_HGEN = itertools.count(1)


def _mentions(e, consts):
    "does term e contain one of the constants?"
    ids = {c.get_id() for c in consts}
    seen = set()
    todo = [e]
    while todo:
        t = todo.pop()
        k = t.get_id()
        if k in seen:
            continue
        seen.add(k)
        if k in ids:
            return True
        if z3.is_quantifier(t):
            todo.append(t.body())
        else:
            todo.extend(t.children())
    return False


class Calls(Exec):

    # ------------------------------------------------------------------ Call
    def ev_Call(self, node, st):
        f = node.func
        # spec special forms (evaluated lazily)
        if isinstance(f, ast.Name) and st.spec and f.id in SPEC_FORMS and f.id not in st.frame.loc:
            return [(st, self.spec_form(f.id, node, st))]
        if isinstance(f, ast.Name) and f.id == 'super':
            raise Unsupported('bare super()', node)
        # super(X, self).__init__(...)
        if isinstance(f, ast.Attribute) and isinstance(f.value, ast.Call) and \
                isinstance(f.value.func, ast.Name) and f.value.func.id == 'super':
            return self.call_super(node, st)
        star = [a for a in node.args if isinstance(a, ast.Starred)]
        plain = [a.value if isinstance(a, ast.Starred) else a for a in node.args]
        kwnames = [k.arg for k in node.keywords]
        if None in kwnames:
            raise Unsupported('**kwargs call', node)
        nodes = [f] + plain + [k.value for k in node.keywords]

        def after(s, vs):
            fv = vs[0]
            args = []
            for a_node, v in zip(node.args, vs[1:1 + len(plain)]):
                if isinstance(a_node, ast.Starred):
                    if not isinstance(v, VTuple):
                        raise Unsupported('*arg of kind ' + v.kind, node)
                    args.extend(v.items)
                else:
                    args.append(v)
            kwargs = dict(zip(kwnames, vs[1 + len(plain):]))
            outs = self.umap(s, fv, lambda s2, g: self.call(s2, g, args, kwargs, node), node)
            # ghost code anchored to this call expression (code mode only): witness bookkeeping after the call
            if not s.spec and s.frames:
                c0 = REG.fns.get(s.frame.fnkey)
                if c0 is not None and c0.ghost_code:
                    gc = c0.ghost_code.get('call ' + ast.unparse(node))
                    if gc:
                        for s9, _v in outs:
                            for line in gc:
                                gname, gexpr = [x.strip() for x in line.split('=', 1)]
                                s9.frame.loc[gname] = self.eval_spec_value(s9, gexpr, s9.frame, old=s9.old, result=_v)
                                s9.lver += 1
            return outs
        return self.bind(self.ev_list(nodes, st), after)

    def call(self, st, fv, args, kwargs, node):
        if isinstance(fv, VFn):
            w = fv.what
            k = w[0]
            if k == 'repo':
                return self.call_repo(st, w[1], args, kwargs, node)
            if k == 'bound':
                return self.call_repo(st, w[2], [w[1]] + args, kwargs, node)
            if k == 'closure':
                return self.call_inline(st, w[1], args, kwargs, node, closure_frame=w[2])
            if k == 'builtin':
                return self.call_builtin(st, w[1], args, kwargs, node)
            if k == 'strmethod':
                return self.call_strmethod(st, w[1], w[2], args, kwargs, node)
            if k == 'listmethod':
                return self.call_listmethod(st, w[1], w[2], args, kwargs, node)
            if k == 'dictmethod':
                return self.call_dictmethod(st, w[1], w[2], args, kwargs, node)
            if k == 'pred':
                # symbolic character predicate; modelled as total and boolean-valued
                ch = self.coerce(st, args[0], ('echar',), node, 'predicate argument')
                return [(st, VBool(z3.Function('pred_holds', IntS, IntS, BoolS)(w[1], ch.t)))]
            if k == 'lambda':
                return self.call_lambda(st, w[1], w[2], args, node)
            if k == 'callback':
                return self.call_callback(st, w[1], args, kwargs, node)
            if k == 'spec':
                return [(st, self.spec_def(st, w[1], args, node))]
            if k == 'opaque':
                raise Unsupported('call of an opaque function value', node)
            if k == 'external':
                return self.call_external(st, w[1], args, kwargs, node)
            if k == 'anystr':
                self.note('configuration data: an option value used as a string is assumed to be a str')
                arr = z3.Function('Any_%s_arr' % w[2], IntS, ArrII)(w[1].t)
                ln = z3.Function('Any_%s_len' % w[2], IntS, IntS)(w[1].t)
                st.assume(ln >= 0)
                return [(st, VStr(arr, z3.IntVal(0), ln))]
        if isinstance(fv, VClass):
            return self.construct(st, fv, args, kwargs, node)
        if isinstance(fv, VAny):
            return self.call_opaque(st, fv, args, kwargs, node)
        if isinstance(fv, VNone):
            self.prove(st, FALSE, 'aorte', node, "TypeError: 'NoneType' object is not callable")
            raise PathDead()
        raise Unsupported('call of %s' % fv.kind, node)

    # ------------------------------------------------------------ arguments
    def bind_args(self, st, fn_node, args, kwargs, node, module, is_method_self=None):
        "-> dict name -> V following the real signature (defaults evaluated from the real AST)"
        a = fn_node.args
        names = [x.arg for x in a.posonlyargs + a.args]
        out = {}
        pos = list(args)
        if len(pos) > len(names) and a.vararg is None:
            self.prove(st, FALSE, 'aorte', node, 'TypeError: too many positional arguments for %s' % fn_node.name)
            raise PathDead()
        for n, v in zip(names, pos):
            out[n] = v
        if a.vararg is not None:
            out[a.vararg.arg] = VTuple(pos[len(names):])
        for k, v in kwargs.items():
            if k in out:
                self.prove(st, FALSE, 'aorte', node, 'TypeError: multiple values for argument %r' % k)
                raise PathDead()
            if k not in names and k not in [x.arg for x in a.kwonlyargs]:
                self.prove(st, FALSE, 'aorte', node, 'TypeError: unexpected keyword argument %r' % k)
                raise PathDead()
            out[k] = v
        defaults = dict(zip(names[len(names) - len(a.defaults):], a.defaults))
        for n in names:
            if n not in out:
                if n not in defaults:
                    self.prove(st, FALSE, 'aorte', node, 'TypeError: missing argument %r of %s' % (n, fn_node.name))
                    raise PathDead()
                out[n] = self.default_value(st, module, defaults[n], fn_node, n)
        for kw, d in zip(a.kwonlyargs, a.kw_defaults):
            if kw.arg not in out:
                out[kw.arg] = self.default_value(st, module, d, fn_node, kw.arg)
        return out

    def default_value(self, st, module, dnode, fn_node, pname):
        try:
            py = self.const_eval(module, dnode)
        except Unsupported:
            raise Unsupported('default of %s.%s is not constant' % (fn_node.name, pname), dnode)
        if isinstance(py, dict) and not py:
            # `options={}` style default: an empty dict; typed by the callee's contract
            return VConst({})
        return from_py(py)

    # ------------------------------------------------------------ repo calls
    def call_repo(self, st, key, args, kwargs, node):
        c = REG.fns.get(key)
        if st.spec:
            if c is not None and not (c.pure or c.inline):
                raise Unsupported('call of non-pure %s inside a spec expression' % key, node)
            return self.call_inline(st, key, args, kwargs, node)
        if c is None or c.inline:
            return self.call_inline(st, key, args, kwargs, node)
        return self.call_contract(st, c, args, kwargs, node)

    def call_inline(self, st, key, args, kwargs, node, closure_frame=None):
        m, fn = loader.get_function(key)
        if st.depth >= MAX_INLINE_DEPTH:
            raise Unsupported('inlining depth exceeded at %s (recursive function needs a contract)' % key, node)
        if loader.loops_of(fn) and key not in REG.fns:
            raise Unsupported('call of %s: it has loops and no contract' % key, node)
        bound = self.bind_args(st, fn, args, kwargs, node, m)
        c = REG.fns.get(key)
        fr = Frame(m, key, parent=closure_frame)
        for n, v in bound.items():
            T = c.params.get(n) if c is not None else None
            if T is not None:
                v = self.coerce(st, v, parse_type(T), node, 'argument %s of %s' % (n, key))
            fr.loc[n] = v
        st.frames.append(fr)
        st.depth += 1
        lver0 = st.lver
        saved_key = self.cur_inline
        self.cur_inline = key
        try:
            outs = self.exec_block(loader.strip_doc(fn.body), st)
        finally:
            self.cur_inline = saved_key
        res = []
        for s, kind, v in outs:
            s.frames.pop()
            s.depth -= 1
            s.lver = lver0      # the callee's own locals are gone; no other frame can be rebound by it
            if kind == 'return':
                res.append((s, v))
            elif kind == 'next':
                res.append((s, NONE))
            elif kind == 'raise':
                self.exc_sink.append((s, v))
            else:
                raise Unsupported('%s escapes function %s' % (kind, key), node)
        # hver/lver bookkeeping: an inlined pure call that wrote nothing leaves the versions of the
        # caller unchanged except for lver (frame push/pop); restore it when no local changed
        return res

    def call_lambda(self, st, lam, frame_idx, args, node):
        names = [a.arg for a in lam.args.args]
        if len(names) != len(args):
            self.prove(st, FALSE, 'aorte', node, 'TypeError: lambda arity')
            raise PathDead()
        fr = Frame(st.frames[frame_idx].module, st.frames[frame_idx].fnkey, parent=frame_idx)
        fr.loc.update(zip(names, args))
        st.frames.append(fr)
        lv = st.lver
        outs = self.ev(lam.body, st)
        for s, _ in outs:
            s.frames.pop()
        return outs

    def call_super(self, node, st):
        # super(C, self).__init__(...)  ->  the next __init__ along the real class hierarchy
        sup = node.func.value
        if len(sup.args) != 2 or node.func.attr != '__init__':
            raise Unsupported('super() form', node)
        r0 = loader.resolve(st.frame.module, sup.args[0].id)
        cname = REG.class_name(r0[1], r0[2]) if r0 and r0[0] == 'class' else None
        if cname is None:
            raise Unsupported('super() in class without contract: ' + sup.args[0].id, node)
        plain = [a.value if isinstance(a, ast.Starred) else a for a in node.args]

        def after(s, vs):
            selfv = vs[0]
            args = []
            for a_node, v in zip(node.args, vs[1:]):
                if isinstance(a_node, ast.Starred):
                    args.extend(v.items)
                else:
                    args.append(v)
            cc = REG.classes.get(cname)
            if cc is None:
                raise Unsupported('super() in class without contract: ' + cname, node)
            ci = loader.find_class(cc.module, cc.real)
            m = loader.load(cc.module)
            for b in ci.bases:
                r = loader.resolve(m, b)
                if r and r[0] == 'class':
                    bn = REG.class_name(r[1], r[2])
                    key, _ = self.find_method(bn, '__init__') if bn else (None, None)
                    if key:
                        return [(s2, NONE) for s2, _ in self.call_inline(s, key, [selfv] + args, {}, node)]
                if b == 'Exception':
                    return [(s, NONE)]
            return [(s, NONE)]
        return self.bind(self.ev_list([sup.args[1]] + plain, st), after)

    def construct(self, st, cv, args, kwargs, node):
        cname = REG.class_name(cv.module, cv.name)
        if cname is None:
            raise Unsupported('constructor of class %s.%s (no class contract)' % (cv.module, cv.name), node)
        obj = self.new_object(st, cname)
        key, _ = self.find_method(cname, '__init__')
        if key is None:
            return [(st, obj)]
        c = REG.fns.get(key)
        if c is not None and not c.inline:
            return [(s, obj) for s, _ in self.call_contract(st, c, [obj] + args, kwargs, node)]
        return [(s, obj) for s, _ in self.call_inline(st, key, [obj] + args, kwargs, node)]

    # -------------------------------------------------------- contract call
    def spec_frame(self, st, c, bound):
        m, fn = loader.get_function(c.key)
        fr = Frame(m, c.key)
        fr.loc.update(bound)
        return fr

    def eval_spec(self, st, expr, frame, old=None, result=None, extra=None, assume=False):
        "evaluate a contract clause (string) in spec mode -> z3 Bool"
        v = self.eval_spec_value(st, expr, frame, old, result, extra, assume)
        return self.truthy(st, v)

    def eval_spec_value(self, st, expr, frame, old=None, result=None, extra=None, assume=False):
        tree = self.parse_spec(expr)
        s = st.fork()
        s.spec = True
        s.spec_assume = assume
        s.old = old
        s.result = result
        fr = frame.copy()
        if extra:
            fr.loc.update(extra)
        # a spec frame that can also see the enclosing frames (closures): keep parent link
        s.frames.append(fr)
        v = self.ev1(tree, s)
        # quantified / auxiliary facts created while evaluating (e.g. type invariants) are kept
        for cnd in s.pc[len(st.pc):]:
            st.assume(cnd)
        return v

    _spec_cache = {}

    def parse_spec(self, expr):
        t = self._spec_cache.get(expr)
        if t is None:
            t = ast.parse(expr.strip(), mode='eval').body
            self._spec_cache[expr] = t
        return t

    def call_contract(self, st, c, args, kwargs, node):
        m, fn = loader.get_function(c.key)
        bound = self.bind_args(st, fn, args, kwargs, node, m)
        for n in list(bound):
            T = c.params.get(n)
            if T is None:
                raise Unsupported('contract of %s does not type parameter %r' % (c.key, n), node)
            bound[n] = self.coerce(st, self.adapt_default(st, bound[n], parse_type(T)), parse_type(T), node,
                                   'argument %s of %s' % (n, c.key))
        fr = self.spec_frame(st, c, bound)
        self._last_contract_call = (c, fr)
        # pre@call
        for r in c.requires:
            g = self.eval_spec(st, r, fr)
            self.prove(st, g, 'pre@call', node, '%s requires %s' % (c.key.split(':')[1], r))
        # recursion: the callee's measure at this call is below the measure this function was entered with
        cur_c = REG.fns.get(self.cur_key)
        if c.decreases and c.rec_group and cur_c is not None and cur_c.rec_group == c.rec_group and not st.spec:
            if not cur_c.decreases:
                raise Unsupported('recursive call of %s from a function without a decreases clause' % c.key, node)
            ffr = next((f_ for f_ in st.frames if f_.fnkey == self.cur_key), None)
            if ffr is None or st.old is None:
                raise Unsupported('recursion measure: no entry frame', node)
            callee_m = [self.int_term(self.eval_spec_value(st, e, fr), node) for e in c.decreases]
            caller_m = [self.int_term(self.eval_spec_value(st, 'old(%s)' % e, ffr, old=st.old), node) for e in cur_c.decreases]
            n = min(len(callee_m), len(caller_m))
            less = FALSE
            eq = TRUE
            for a_, b_ in zip(callee_m[:n], caller_m[:n]):
                less = OR(less, AND(eq, a_ < b_))
                eq = AND(eq, a_ == b_)
            self.prove(st, AND(less, *[a_ >= 0 for a_ in callee_m]), 'variant', node,
                       'recursion: measure %s of %s is non-negative and below the measure %s this call started with'
                       % (c.decreases, c.key.split(':')[1], cur_c.decreases))
        # a closure passed for the callee's callback parameter (DESIGN.md 1.5)
        cb_closure = None
        if c.callback and isinstance(bound.get(c.callback['param']), VFn) and \
                bound[c.callback['param']].what[0] == 'closure':
            cb_closure = self.callback_closure_pre(st, c, bound, fr, node)
        old = st.fork()
        old.frames.append(fr.copy())
        outs = []
        # exceptional continuation(s)
        for exc in c.raises:
            s2 = st.fork()
            if c.allocates:
                a2 = fresh_int('alloc')
                s2.assume(a2 >= s2.alloc)
                s2.alloc = a2
            self.havoc_frame(s2, c, fr, node)
            ev = self.new_object(s2, exc) if exc in REG.classes else VAny()
            ok = True
            for e in c.ensures_on_raise:
                s2.assume(self.eval_spec(s2, e, fr, old=old, result=ev, extra={'exc': ev}, assume=True))
            if self.feasible(s2):
                self.exc_sink.append((s2, ev))
        # normal continuation
        pre_call0 = st.fork()
        # the callee may allocate: the counter moves first, so that the havocked locations (typed: every stored
        # reference is below the counter) can hold objects the callee created
        RT = parse_type(c.returns)
        if RT[0] in ('ref', 'list', 'rec') or c.allocates or self._may_allocate(RT):
            a2 = fresh_int('alloc')
            st.assume(a2 >= st.alloc)
            st.alloc = a2
        self.havoc_frame(st, c, fr, node)
        if cb_closure is not None:
            pre_call = pre_call0
            self.callback_closure_havoc(st, cb_closure, node)
            # two-state clauses every invocation of the closure preserves (reflexive, transitive by construction)
            cc_, fidx_ = cb_closure[0], cb_closure[1]
            for e in cc_.stable:
                s_old = pre_call.fork()
                # `old` for these clauses is the state just before the callee was called, seen from the closure's
                # defining frame
                st.assume(self.eval_spec(st, e, st.frames[fidx_], old=self._old_view(pre_call, fidx_), assume=True))

        # the caller's own callback parameter handed on to the callee: whatever the callee does with it is a
        # sequence of invocations, each of which satisfies the callback's (reflexive-transitive) effect contract
        if c.callback and isinstance(bound.get(c.callback['param']), VFn) and \
                bound[c.callback['param']].what[0] == 'callback':
            cspec = bound[c.callback['param']].what[1]
            if cspec.get('ensures') or cspec.get('modifies'):
                cur = st.frame
                for mexpr in cspec.get('modifies', []):
                    self.havoc_target(st, mexpr, cur, node)
                for e in cspec.get('ensures', []):
                    st.assume(self.eval_spec(st, e, cur, old=self._old_view(pre_call0, len(pre_call0.frames) - 1), assume=True))
        res = self.make_fresh(st, RT, 'ret')
        for e in c.ensures:
            st.assume(self.eval_spec(st, e, fr, old=old, result=res, assume=True))
        if not self.feasible(st):
            # the callee's postcondition contradicts what is known here: nothing after this call would be
            # checked on this path.  Never silent: recorded, and reported as vacuity by verify().
            self.dead_after_call.append('%s@L%s: path ends after the call of %s (its postcondition is '
                                        'inconsistent with the caller state)' % (self.cur_key, getattr(node, 'lineno', '?'), c.key))
            return []
        return [(st, res)]

    def contract_frame_for_call(self, st, call_node):
        """(contract, spec frame over the bound arguments) of a call expression `f(a, ...)` of a repository
        function under a non-inline contract; evaluated on a spec-mode copy (no obligations, no effects)"""
        probe = st.fork()
        probe.spec = True
        fv = self.ev1(call_node.func, probe)
        if not (isinstance(fv, VFn) and fv.what[0] == 'repo'):
            raise Unsupported('list comprehension: the element expression does not call a repository function', call_node)
        c = REG.fns.get(fv.what[1])
        if c is None or c.inline:
            raise Unsupported('list comprehension: %s has no (non-inline) contract' % fv.what[1], call_node)
        if call_node.keywords or any(isinstance(a, ast.Starred) for a in call_node.args):
            raise Unsupported('list comprehension: keyword / starred arguments', call_node)
        args = [self.ev1(a, probe) for a in call_node.args]
        m, fn = loader.get_function(c.key)
        bound = self.bind_args(probe, fn, args, {}, call_node, m)
        for n in list(bound):
            T = c.params.get(n)
            if T is None:
                raise Unsupported('contract of %s does not type parameter %r' % (c.key, n), call_node)
            bound[n] = self.coerce(probe, self.adapt_default(probe, bound[n], parse_type(T)), parse_type(T), call_node,
                                   'argument %s of %s' % (n, c.key))
        return c, self.spec_frame(probe, c, bound)

    def _old_view(self, state, frame_idx):
        "a snapshot whose top frame is frame `frame_idx` of `state` (old() evaluates in the top frame)"
        s = state.fork()
        s.frames = s.frames[:frame_idx + 1]
        return s

    def callback_closure_pre(self, st, c, bound, fr, node):
        """the argument for the callee's callback parameter is a closure of the function under proof:
        (1) its closure invariant holds now, (2) the callee's callback contract implies the closure's
        precondition.  Returns the closure's contract."""
        fv = bound[c.callback['param']]
        ckey = fv.what[1]
        cc = REG.fns.get(ckey)
        if cc is None or not cc.captures:
            raise Unsupported('closure %s passed as callback has no contract (captures / closure_invariant)' % ckey, node)
        outer_frame = st.frames[fv.what[2]]
        # the callee's ghost state starts from its initial values
        for g, (GT, init) in c.ghost.items():
            outer_frame.loc[g] = self.coerce(st, self.eval_spec_value(st, init, fr), parse_type(GT), node, 'ghost ' + g)
        for inv in cc.closure_invariant:
            self.prove(st, self.eval_spec(st, inv, outer_frame, old=st.old), 'closure-init', node, '%s: %s' % (ckey.split('.<locals>.')[-1], inv))
        # (2) callee's callback contract  =>  closure's requires, for arbitrary callback arguments
        s2 = st.fork()
        m2, cfn = loader.get_function(ckey)
        names = [x.arg for x in cfn.args.args]
        if len(names) != len(c.callback['args']):
            self.prove(st, FALSE, 'callback-pre', node, 'callback arity of %s' % ckey)
            raise PathDead()
        vals = []
        for n in names:
            T = cc.params.get(n)
            if T is None:
                raise Unsupported('closure contract %s does not type %r' % (ckey, n), node)
            vals.append(self.make_fresh(s2, parse_type(T), n))
        cal_fr = fr.copy()
        cal_fr.loc.update(zip(c.callback['args'], vals))
        # ghost state of the callee is shared with the closure (captured under the same name)
        ghosts = {}
        for g, (GT, init) in c.ghost.items():
            ghosts[g] = self.make_fresh(s2, parse_type(GT), g)
        cal_fr.loc.update(ghosts)
        of2 = s2.frames[fv.what[2]]
        of2.loc.update(ghosts)
        for r in c.callback['requires']:
            s2.assume(self.eval_spec(s2, r, cal_fr, assume=True))
        for inv in cc.closure_invariant:
            s2.assume(self.eval_spec(s2, inv, of2, old=st.old, assume=True))
        clo_fr = Frame(m2, ckey, parent=fv.what[2])
        clo_fr.loc.update(zip(names, vals))
        # evaluate the closure's requires in a frame whose parent is the defining frame
        for r in cc.requires:
            s3 = s2.fork()
            g = self.eval_spec_in_closure(s3, r, clo_fr)
            self.prove(s3, g, 'callback-pre', node, '%s requires %s' % (ckey.split('.<locals>.')[-1], r))
        return (cc, fv.what[2], c)

    def eval_spec_in_closure(self, st, expr, clo_fr):
        tree = self.parse_spec(expr)
        s = st.fork()
        s.spec = True
        s.frames.append(clo_fr.copy())
        v = self.ev1(tree, s)
        for cnd in s.pc[len(st.pc):]:
            st.assume(cnd)
        return self.truthy(st, v)

    def callback_closure_havoc(self, st, cb, node):
        "the callee may run the closure any number of times: captured state is havocked up to its invariant"
        cc, frame_idx, callee = cb
        outer_frame = st.frames[frame_idx]
        for mexpr in cc.modifies:
            self.havoc_target(st, mexpr, outer_frame, node)
        for g, (GT, init) in callee.ghost.items():
            outer_frame.loc[g] = self.make_fresh(st, parse_type(GT), g)
        self._pending_stable = (cc, frame_idx)
        for inv in cc.closure_invariant:
            st.assume(self.eval_spec(st, inv, outer_frame, old=st.old, assume=True))

    def _may_allocate(self, T):
        if T[0] in ('ref', 'list', 'rec'):
            return True
        if T[0] in ('union', 'tuple'):
            return any(self._may_allocate(x) for x in T[1])
        return False

    def adapt_default(self, st, v, T):
        "an empty-dict default bound to a record-typed parameter"
        if isinstance(v, VConst) and v.py == {} and T[0] == 'rec':
            return self.new_rec(st, T[1], {})
        return v

    def havoc_frame(self, st, c, fr, node):
        for mexpr in c.modifies:
            self.havoc_target(st, mexpr, fr, node)

    def havoc_target(self, st, mexpr, fr, node):
        """mexpr: 'x.f' (one field of one object), 'x[*]' (contents of list x), 'x.*' all fields,
        'x{*}' all keys of record x, '*' everything"""
        mexpr = mexpr.strip()
        if mexpr == '*':
            self.havoc_all(st)
            return
        if mexpr == 'owned':
            bound = st.owner_bound if st.owner_bound is not None else (st.old.alloc if st.old is not None else None)
            if bound is None:
                self.havoc_all(st)
            else:
                self.havoc_owned(st, bound)
            return
        if '::' in mexpr:
            self.havoc_classwide(st, mexpr, node)
            return
        s = st.fork()
        s.spec = True
        s.frames.append(fr.copy())
        if mexpr.endswith('[*]'):
            v = self.ev1(self.parse_spec(mexpr[:-3]), s)
            for c_, a in (v.alts if isinstance(v, VU) else [(TRUE, v)]):
                if isinstance(a, VList):
                    self.fresh_list_contents(st, a)
            return
        if mexpr.endswith('{*}'):
            v = self.ev1(self.parse_spec(mexpr[:-3]), s)
            if isinstance(v, (VMap, VAny)):
                m = self.as_map(st, v, node)
                self.map_write(st, m.t, fresh(z3.ArraySort(IntS, BoolS), 'dom'), fresh(z3.ArraySort(IntS, IntS), 'val'))
                return
            for key, T in self.rec_fields(v.name).items():
                self.rec_store(st, v, key, self.make_fresh(st, parse_type(T), key))
            return
        if '[*].' in mexpr:
            lexpr, fld = mexpr.split('[*].')
            v = self.ev1(self.parse_spec(lexpr), s)
            region = self.elems_snapshot(st, v, node)
            owner, T = self.field_info(type_str(v.elem), fld, node)
            for j, sort in enumerate(slots(T)):
                key = (owner, fld, j)
                cur = self.harr(st, key, sort)
                na = fresh(z3.ArraySort(IntS, sort), 'hv_' + fld)
                self.elem_frame_axiom(st, region, na, cur)
                self.hset(st, key, na)
            return
        tree = self.parse_spec(mexpr)
        if isinstance(tree, ast.Attribute):
            v = self.ev1(tree.value, s)
            for c_, a in (v.alts if isinstance(v, VU) else [(TRUE, v)]):
                if isinstance(a, VRef):
                    owner, T = self.field_info(a.cls, tree.attr, node)
                    nv = self.make_fresh(st, T, tree.attr)
                    if is_true(c_):
                        self.store_field(st, a, tree.attr, nv, node)
                    else:
                        cur = self.flatten(st, T, self.coerce(st, self.load_field(st, a, tree.attr), T, node, 'havoc'))
                        new = self.flatten(st, T, nv)
                        for j, (sort, t0, t1) in enumerate(zip(slots(T), cur, new)):
                            key = (owner, tree.attr, j)
                            self.hset(st, key, z3.Store(self.harr(st, key, sort), a.t, ITE(c_, t1, t0)))
            return
        if isinstance(tree, ast.Subscript) and isinstance(tree.slice, ast.Constant):
            v = self.ev1(tree.value, s)
            if isinstance(v, VRec):
                T = parse_type(self.rec_fields(v.name)[tree.slice.value])
                self.rec_store(st, v, tree.slice.value, self.make_fresh(st, T, 'rec'))
                return
        raise Unsupported('modifies clause %r' % mexpr, node)

    def classwide_keys(self, mexpr, node=None):
        """'Cls::fld' / 'Cls::*': field(s) of EVERY instance of Cls; 'list[T]::*': length and items of every list
        whose declared element type is T.  -> ('fields', [heap keys]) or ('lists', elem type)"""
        left, fld = [x.strip() for x in mexpr.split('::', 1)]
        if left.startswith('list['):
            return ('lists', parse_type(left)[1])
        cc = REG.classes.get(left)
        if cc is None:
            raise Unsupported('modifies clause %r: unknown class' % mexpr, node)
        keys = []
        for f, T in cc.fields.items():
            if fld != '*' and f != fld:
                continue
            for j, sort in enumerate(slots(parse_type(T))):
                keys.append(((left, f, j), sort))
        if not keys:
            raise Unsupported('modifies clause %r: no such field' % mexpr, node)
        return ('fields', keys)

    def havoc_classwide(self, st, mexpr, node):
        kind, what = self.classwide_keys(mexpr, node)
        if kind == 'fields':
            for key, sort in what:
                self.harr(st, key, sort)
                self.hset(st, key, fresh(z3.ArraySort(IntS, sort), 'hv_' + key[1]))
            return
        elem = what
        for j, sort in enumerate(slots(elem)):
            key = self.items_key(elem, j)
            self.harr(st, key, z3.ArraySort(IntS, sort))
            self.hset(st, key, fresh(z3.ArraySort(IntS, z3.ArraySort(IntS, sort)), 'hv_items'))
        cur = self.harr(st, LIST_LEN, IntS)
        et = self.harr(st, LIST_ETYPE, IntS)
        na = fresh(z3.ArraySort(IntS, IntS), 'hv_len')
        r = fresh_int('fr')
        st.assume(z3.ForAll([r], z3.Implies(z3.Select(et, r) != etype_id(elem), z3.Select(na, r) == z3.Select(cur, r)),
                            patterns=[z3.Select(na, r)]))
        r2 = fresh_int('fr')
        st.assume(z3.ForAll([r2], z3.Select(na, r2) >= 0, patterns=[z3.Select(na, r2)]))
        self.hset(st, LIST_LEN, na)

    def havoc_owned(self, st, bound):
        """havoc every heap location of objects with reference >= bound (objects owned by the current
        call); locations of older objects keep their values"""
        for key, arr in list(st.heap.items()):
            na = fresh(arr.sort(), 'own')
            r = fresh_int('fr')
            st.assume(z3.ForAll([r], z3.Implies(r < bound, z3.Select(na, r) == z3.Select(arr, r))))
            st.heap[key] = na
        # keys not touched so far: new generation whose base arrays agree with the old ones below the bound
        g = next(_HGEN)
        touched = dict(st.heap)
        st.hgen_parent = dict(st.hgen_parent)
        st.hgen_parent[g] = (st.hgen, bound)
        st.hgen = g
        st.heap = touched
        st.hver += 1
        a2 = fresh_int('alloc')
        st.assume(a2 >= st.alloc)
        st.alloc = a2

    def havoc_all(self, st):
        st.heap = {}
        st.hgen_unknown = True
        st.hgen = next(_HGEN)
        st.hver += 1
        a2 = fresh_int('alloc')
        st.assume(a2 >= st.alloc)
        st.alloc = a2

    # ------------------------------------------------------------ callbacks
    def call_callback(self, st, spec, args, kwargs, node):
        """call of a callback parameter inside the function under proof: the callback contract is
        asserted on the arguments; the result is unconstrained"""
        names = spec['args']
        if len(args) != len(names):
            self.prove(st, FALSE, 'callback', node, 'callback arity')
            raise PathDead()
        fr = Frame(st.frame.module, st.frame.fnkey, parent=len(st.frames) - 1)
        fr.loc.update(zip(names, args))
        for g in spec.get('ghost_pre', []):
            pass
        for r in spec['requires']:
            self.prove(st, self.eval_spec(st, r, fr), 'callback', node, 'callback contract: ' + r)
        # effect of the callback as far as the contract describes it: frame + two-state postconditions
        if spec.get('modifies') or spec.get('ensures'):
            pre_cb = st.fork()
            cbf = Frame(st.frame.module, st.frame.fnkey, parent=len(st.frames) - 1)
            cbf.loc.update(zip(names, args))
            for mexpr in spec.get('modifies', []):
                self.havoc_target(st, mexpr, cbf, node)
            old_cb = pre_cb.fork()
            old_cb.frames.append(cbf.copy())
            for e in spec.get('ensures', []):
                st.assume(self.eval_spec(st, e, cbf, old=old_cb, assume=True))
        for upd in spec.get('ghost_update', []):
            name, expr = upd
            v = self.eval_spec_value(st, expr, fr)
            # ghost variables live in the frame of the function under proof
            fi = len(st.frames) - 1
            while fi is not None and name not in st.frames[fi].loc:
                fi = st.frames[fi].parent
            if fi is None:
                raise Unsupported('ghost variable %s not initialised' % name, node)
            st.frames[fi].loc[name] = v
            st.lver += 1
        return [(st, self.make_fresh(st, parse_type(spec.get('returns', 'any')), 'cbret'))]

    # ------------------------------------------------------------ spec forms
    def spec_form(self, name, node, st):
        a = node.args
        if name == 'old':
            if st.old is None:
                raise Unsupported('old() without an entry snapshot', node)
            s = st.old.fork()
            s.spec = True
            # names bound by enclosing quantifiers stay visible
            for k, v in st.frame.loc.items():
                if k.startswith('q_') or k not in s.frame.loc:
                    s.frame.loc.setdefault(k, v)
            s.pc = st.pc
            v = self.ev1(a[0], s)
            return v
        if name == 'implies':
            p = self.truthy(st, self.ev1(a[0], st))
            if is_false(simp(p)):
                return VBool(True)
            s = st.fork()
            s.assume(p)
            q = self.truthy(s, self.ev1(a[1], s))
            for cnd in s.pc[len(st.pc) + 1:]:
                st.assume(IMPL(p, cnd))
            return VBool(IMPL(p, q))
        if name == 'iff':
            p = self.truthy(st, self.ev1(a[0], st))
            q = self.truthy(st, self.ev1(a[1], st))
            return VBool(p == q)
        if name == 'ite':
            p = self.truthy(st, self.ev1(a[0], st))
            x = self.ev1(a[1], st)
            y = self.ev1(a[2], st)
            return mk_union([(p, x), (NOT(p), y)])
        if name in ('forall', 'exists'):
            lam = a[-1]
            if not isinstance(lam, ast.Lambda):
                raise Unsupported('%s needs a lambda' % name, node)
            vars_ = [x.arg for x in lam.args.args]
            qs = [fresh_int('q_' + v) for v in vars_]
            s = st.fork()
            for v, q in zip(vars_, qs):
                s.frame.loc[v] = VInt(q)
            if len(a) == 3:
                lo = self.int_term(self.ev1(a[0], st), node)
                hi = self.int_term(self.ev1(a[1], st), node)
                rng = AND(qs[0] >= lo, qs[0] < hi)
                if z3.is_int_value(lo) and lo.as_long() >= 0:
                    s.nonneg = s.nonneg | {qs[0].get_id()}
            else:
                rng = TRUE
            body = self.truthy(s, self.ev1(lam.body, s))
            extra = []
            for e in s.pc[len(st.pc):]:
                # facts met while translating the body that do not mention the bound variables (frame axioms
                # of heap arrays first touched here, type invariants of outer values) are facts of the
                # enclosing state; kept inside they would put a quantifier under the quantifier's guard
                if _mentions(e, qs):
                    extra.append(e)
                else:
                    st.assume(e)
            if name == 'forall':
                # type invariants of heap values met while translating the body (`extra`) are facts about
                # every well-typed heap: given to the solver when the formula is assumed, available as
                # hypotheses when it is proved
                if getattr(st, 'spec_assume', False):
                    return VBool(z3.ForAll(qs, IMPL(rng, AND(body, *extra))))
                return VBool(z3.ForAll(qs, IMPL(AND(rng, *extra), body)))
            if extra and not getattr(st, 'spec_assume', False):
                # proving an existential: the auxiliary facts (type invariants, definitional instances such as
                # body => numshape) hold for every value of the bound variable; they are ambient, not to be proved
                st.assume(z3.ForAll(qs, AND(*extra)))
                return VBool(z3.Exists(qs, AND(rng, body)))
            return VBool(z3.Exists(qs, AND(rng, body, *extra)))
        if name == 'holds':
            m = self.ev1(a[0], st)
            ch = self.ev1(a[1], st)
            return VBool(self.holds(st, m, ch, node))
        if name == 'keyis':
            # keyis(k, 'literal'): the key bound by forall_keys is that literal key
            k = self.ev1(a[0], st)
            return VBool(self.key_term(k) == self.lit_key(a[1].value))
        if name == 'uf_real':
            # uf_real('name', a, b, ...): an uninterpreted real-valued function of the (opaque ids of the) arguments
            fname = a[0].value
            ids = [self.flatten(st, ('any',), self.ev1(x, st))[0] for x in a[1:]]
            f = z3.Function('uf_' + fname, *([IntS] * len(ids) + [RealS]))
            return VFloat(f(*ids))
        if name == 'int_str':
            return self.int_str(st, self.num(self.ev1(a[0], st)))
        if name == 'total_len':
            # total length of the strings in a list of opaque values
            l = self.ev1(a[0], st)
            if not isinstance(l, VList) or l.elem != ('any',):
                raise Unsupported('total_len() needs a list[any]', node)
            USED_SUMLEN[0] = True
            arr = self.harr(st, self.items_key(l.elem, 0), z3.ArraySort(IntS, IntS))
            return VInt(sumlen_uf(z3.Select(arr, l.t), self.list_len(st, l)))
        if name == 'has':
            m = self.as_map(st, self.ev1(a[0], st), node)
            return VBool(self.map_has(st, m, self.ev1(a[1], st)))
        if name == 'at':
            m = self.as_map(st, self.ev1(a[0], st), node)
            return self.map_at(st, m, self.ev1(a[1], st))
        if name == 'mget':
            # the mapping stored under key k of m, or the empty mapping when m has no such key
            m = self.as_map(st, self.ev1(a[0], st), node)
            k = self.ev1(a[1], st)
            has = self.map_has(st, m, k)
            return VMap(ITE(has, self.map_at(st, m, k).t, self.EMPTY_MAP))
        if name == 'same':
            x = self.ev1(a[0], st)
            y = self.ev1(a[1], st)
            return VBool(self.any_id(st, x) == self.any_id(st, y))
        if name == 'forall_keys':
            lam = a[0]
            q = fresh_int('q_key')
            s = st.fork()
            s.frame.loc[lam.args.args[0].arg] = VKey(q)
            body = self.truthy(s, self.ev1(lam.body, s))
            extra = s.pc[len(st.pc):]
            if getattr(st, 'spec_assume', False):
                return VBool(z3.ForAll([q], AND(body, *extra)))
            return VBool(z3.ForAll([q], IMPL(AND(*extra), body)))
        if name == 'numshape':
            sv = self.ev1(a[0], st)
            lo = self.ev1(a[1], st).t
            hi = self.ev1(a[2], st).t
            arr, off, n = str_parts(self.as_str(sv))
            if len(a) == 5:
                # numshape(s, lo, hi, a, p): the defining formula with explicit split points.  The
                # definitional instance  body(a, p) -> numshape(s, lo, hi)  is sound in every context.
                wa = self.ev1(a[3], st).t
                wp = self.ev1(a[4], st).t
                body = self.numshape_body(arr, simp(off + lo), simp(off + hi), simp(off + wa), simp(off + wp))
                st.assume(IMPL(body, self.numshape(arr, simp(off + lo), simp(off + hi))))
                return VBool(body)
            return VBool(self.numshape(arr, simp(off + lo), simp(off + hi)))
        if name == 'chars_hold':
            # chars_hold(s, a, b, m): every character s[i], a <= i < b, is accepted by the matcher m;
            # encoded over absolute array positions (see all_decimal)
            sv = self.ev1(a[0], st)
            lo = self.ev1(a[1], st).t
            hi = self.ev1(a[2], st).t
            m = self.ev1(a[3], st)
            arr, off, n = str_parts(self.as_str(sv))
            k = fresh_int('qk')
            s2 = st.fork()
            body = self.holds(s2, m, VCh(z3.Select(arr, k)), node)
            extra = s2.pc[len(st.pc):]
            rng = AND(k >= simp(off + lo), k < simp(off + hi))
            if getattr(st, 'spec_assume', False):
                return VBool(z3.ForAll([k], IMPL(rng, AND(body, *extra))))
            return VBool(z3.ForAll([k], IMPL(AND(rng, *extra), body)))
        if name == 'occurs_at':
            # occurs_at(s, p, t): the string t occurs in s at index p (0 <= p, p + len(t) <= len(s), characters
            # equal); quantified over absolute positions of s's array so that triggers match whatever the views
            sv = self.as_str(self.ev1(a[0], st))
            pv = self.int_term(self.ev1(a[1], st), node)
            tv = self.as_str(self.ev1(a[2], st))
            arr, off, n = str_parts(sv)
            arr2, off2, n2 = str_parts(tv)
            k = fresh_int('qk')
            base = simp(off + pv)
            return VBool(AND(pv >= 0, pv + n2 <= n,
                             forall_trig([k], IMPL(AND(k >= base, k < simp(base + n2)),
                                                   z3.Select(arr, k) == z3.Select(arr2, simp(off2 + k - base))),
                                         z3.Select(arr, k))))
        if name == 'fresh':
            v = self.ev1(a[0], st)
            if st.old is None:
                raise Unsupported('fresh() without entry snapshot', node)
            return VBool(OR(*[AND(c, x.t >= st.old.alloc) for c, x in (v.alts if isinstance(v, VU) else [(TRUE, v)])
                              if isinstance(x, (VRef, VList, VRec, VMap))]))
        if name == 'owned':
            v = self.ev1(a[0], st)
            bound = st.owner_bound if st.owner_bound is not None else (st.old.alloc if st.old is not None else None)
            if bound is None:
                raise Unsupported('owned() outside a function with an entry snapshot', node)
            return VBool(AND(*[IMPL(c, x.t >= bound) for c, x in (v.alts if isinstance(v, VU) else [(TRUE, v)])
                               if isinstance(x, (VRef, VList, VRec, VMap))]))
        if name == 'allocated':
            v = self.ev1(a[0], st)
            return VBool(AND(v.t >= 1, v.t < st.alloc))
        if name == 'kind_is':
            v = self.ev1(a[0], st)
            want = a[1].value
            alts = v.alts if isinstance(v, VU) else [(TRUE, v)]
            return VBool(OR(*[c for c, x in alts if x.kind == want]))
        if name == 'same_str':
            x = self.ev1(a[0], st)
            y = self.ev1(a[1], st)
            xa, xo, xn = str_parts(x)
            ya, yo, yn = str_parts(y)
            return VBool(AND(xa == ya, xo == yo, xn == yn))
        raise Unsupported('spec form ' + name, node)

    def any_id(self, st, v):
        "opaque identity of a value (reference, or the id of a string / number); unions by cases"
        if isinstance(v, VU):
            t = self.any_id(st, v.alts[-1][1])
            for c, x in reversed(v.alts[:-1]):
                t = ITE(c, self.any_id(st, x), t)
            return t
        return self.flatten(st, ('any',), v)[0]

    def int_term(self, v, node=None):
        "z3 term of an int-valued spec value; the None alternative of an optional int is excluded by the clause's guard"
        if isinstance(v, VU):
            nn = [(c, x) for c, x in v.alts if not isinstance(x, VNone)]
            if nn and all(isinstance(x, (VInt, VBool)) for _, x in nn):
                t = self.num(nn[-1][1])
                for c, x in reversed(nn[:-1]):
                    t = ITE(c, self.num(x), t)
                return t
        if isinstance(v, (VInt, VBool)):
            return self.num(v)
        raise Unsupported('integer expected in a quantifier bound, got %s' % v.kind, node)

    def holds(self, st, m, ch, node):
        "does `match` (a character or a predicate) accept the character-or-empty ch?"
        if isinstance(m, VU):
            return OR(*[AND(c, self.holds(st, x, ch, node)) for c, x in m.alts])
        if isinstance(ch, VStr):
            ch = self.coerce(st, ch, ('echar',), node, 'holds')
        if isinstance(m, (VCh, VStr)):
            return self.eq(st, m, ch, node)
        if isinstance(m, VFn):
            s = st.fork()
            s.spec = True
            outs = self.call(s, m, [ch], {}, node)
            if len(outs) != 1:
                raise Unsupported('predicate forks in spec mode', node)
            for cnd in outs[0][0].pc[len(st.pc):]:
                st.assume(cnd)
            return self.truthy(st, outs[0][1])
        raise Unsupported('holds() on %s' % m.kind, node)

    def spec_def(self, st, name, args, node):
        params, expr = REG.defs[name]
        if len(params) != len(args):
            raise Unsupported('spec helper %s arity' % name, node)
        fr = Frame(st.frame.module, st.frame.fnkey)
        fr.loc.update(zip(params, args))
        s = st.fork()
        s.frames.append(fr)
        v = self.ev1(self.parse_spec(expr), s)
        for cnd in s.pc[len(st.pc):]:
            st.assume(cnd)
        return v

    # ------------------------------------------------------------ opaque callables (user callbacks)
    def call_opaque(self, st, fv, args, kwargs, node):
        """call of an opaque callable held in a local (a user supplied callback taken from the options).
        The contract of the function under proof states, per local name, what must hold at the call
        (`calls`); the result is an unconstrained opaque value; the callable is assumed not to touch the
        objects of the library (documented assumption)."""
        fname = node.func.id if isinstance(node.func, ast.Name) else None
        c = REG.fns.get(st.frame.fnkey)
        spec = c.calls.get(fname) if (c is not None and fname) else None
        if spec is None:
            raise Unsupported('call of an opaque value (declare it under contract.calls)', node)
        fr = Frame(st.frame.module, st.frame.fnkey, parent=len(st.frames) - 1)
        fr.loc.update(kwargs)
        for i, a in enumerate(args):
            fr.loc['arg%d' % i] = a
        s2 = st.fork()
        s2.frames.append(fr)
        for r in spec.get('requires', []):
            g = self.eval_spec(s2, r, fr, old=st.old)
            self.prove(st, g, 'callback', node, '%s(...) is called with %s' % (fname, r))
        self.note('user callbacks (output.field / output.text) are assumed not to modify library objects')
        return [(st, self.make_fresh(st, parse_type(spec.get('returns', 'any')), 'cbret'))]

    # ------------------------------------------------------------ externals (trusted contracts)
    def call_external(self, st, name, args, kwargs, node):
        """standard-library calls with hand-written contracts; each one is listed in the evidence as
        trusted and cross-checked against CPython by the self-test"""
        if name == 're.sub' and len(args) == 3 and isinstance(args[0], VStr) and args[0].lit == '^[*+>^]+' \
                and isinstance(args[1], VStr) and args[1].lit == '':
            self.note("external re.sub(r'^[*+>^]+', '', s): trusted contract: the result is the suffix of s that starts "
                      "at the first character not in *+>^ (cross-checked against CPython by the self-test)")
            s0 = self.as_str(args[2])
            arr, off, n = str_parts(s0)
            k = fresh_int('strip')
            st.assume(AND(k >= 0, k <= n))
            q = fresh_int('qk')
            isop = lambda c: z3.Or(c == ord('*'), c == ord('+'), c == ord('>'), c == ord('^'))
            st.assume(z3.ForAll([q], z3.Implies(z3.And(q >= off, q < off + k), isop(z3.Select(arr, q)))))
            st.assume(z3.Or(k == n, z3.Not(isop(z3.Select(arr, off + k)))))
            return [(st, VStr(arr, simp(off + k), simp(n - k)))]
        if name in ('re.split', 'regex.split'):
            self.note('external re.split / compiled pattern .split: trusted contract "returns a fresh list with at least one element"')
            l = VList(('any',), st.alloc)
            st.alloc = simp(st.alloc + 1)
            self.tag_list(st, l)
            self.fresh_list_contents(st, l)
            st.assume(self.list_len(st, l) >= 1)
            return [(st, l)]
        raise Unsupported('external call %s' % name, node)

    # ------------------------------------------------------------ builtins
    def force_all(self, st, args):
        outs = [(st, [])]
        for a in args:
            nxt = []
            for s, acc in outs:
                for s2, v in (self.force(s, a) if not s.spec else [(s, a)]):
                    nxt.append((s2, acc + [v]))
            outs = nxt
        return outs

    def call_builtin(self, st, name, args, kwargs, node):
        if name in ('max', 'min', 'abs', 'chr') and any(isinstance(a, VU) for a in args) and not st.spec:
            res = []
            for s2, vs in self.force_all(st, args):
                try:
                    res.extend(self.call_builtin(s2, name, vs, kwargs, node))
                except PathDead:
                    pass
            return res

        if st.spec and name in ('max', 'min', 'abs'):
            # in a specification the None alternative of an optional number is excluded by the guard
            # the clause is written under (`x if p is None else min(..., p)`)
            def strip(v):
                if isinstance(v, VU):
                    nn = [a for _, a in v.alts if not isinstance(a, VNone)]
                    if len(nn) == 1:
                        return nn[0]
                return v
            args = [strip(a) for a in args]

        def one(v):
            return [(st, v)]
        if name == 'len':
            def f(s, v):
                if isinstance(v, VStr):
                    return [(s, VInt(str_len(v)))]
                if isinstance(v, VCh):
                    return [(s, VInt(ITE(v.t >= 0, z3.IntVal(1), z3.IntVal(0))))]
                if isinstance(v, VList):
                    return [(s, VInt(self.list_len(s, v)))]
                if isinstance(v, VTuple):
                    return [(s, VInt(len(v.items)))]
                if isinstance(v, VConst):
                    return [(s, VInt(len(v.py)))]
                if isinstance(v, VNone):
                    self.prove(s, FALSE, 'aorte', node, "TypeError: object of type 'NoneType' has no len()")
                    raise PathDead()
                if isinstance(v, VAny):
                    n = len_any_uf(v.t)
                    s.assume(n >= 0)
                    return [(s, VInt(n))]
                raise Unsupported('len of ' + v.kind, node)
            return self.umap(st, args[0], f, node)
        if name == 'ord':
            def f(s, v):
                v = self.coerce(s, v, ('echar',), node, 'ord argument')
                self.prove(s, v.t >= 0, 'aorte', node, 'TypeError: ord() expected a character: ' + ast.unparse(node))
                return [(s, VInt(v.t))]
            return self.umap(st, args[0], f, node)
        if name == 'chr':
            v = args[0]
            self.prove(st, AND(v.t >= 0, v.t < 0x110000), 'aorte', node, 'ValueError: chr() arg not in range')
            return one(VCh(v.t))
        if name == 'callable':
            return self.umap(st, args[0], lambda s, v: [(s, VBool(isinstance(v, (VFn, VClass))))], node)
        if name == 'isinstance':
            return self.umap(st, args[0], lambda s, v: [(s, VBool(self.isinstance_(s, v, args[1], node)))], node)
        if name in ('max', 'min'):
            vals = args
            if len(args) == 1 and isinstance(args[0], VTuple):
                vals = args[0].items
            if any(isinstance(v, VNone) for v in vals):
                self.prove(st, FALSE, 'aorte', node, 'TypeError: %s() with None' % name)
                raise PathDead()
            if not all(isinstance(v, (VInt, VBool)) for v in vals):
                raise Unsupported('%s on non-int' % name, node)
            t = self.num(vals[0])
            for v in vals[1:]:
                x = self.num(v)
                t = ITE(x > t, x, t) if name == 'max' else ITE(x < t, x, t)
            return one(VInt(simp(t)))
        if name == 'abs':
            t = self.num(args[0])
            return one(VInt(ITE(t < 0, -t, t)))
        if name == 'bool':
            return one(VBool(self.truthy(st, args[0])))
        if name == 'int':
            return self.umap(st, args[0], lambda s, v: self.to_int(s, v, node), node)
        if name == 'float':
            return self.umap(st, args[0], lambda s, v: self.to_float(s, v, node), node)
        if name == 'str':
            if args and isinstance(args[0], (VInt, VBool)):
                return one(self.int_str(st, self.num(args[0])))
            if args and isinstance(args[0], VStr):
                return one(args[0])
            return one(self.make_fresh(st, ('str',), 'str'))
        if name == 'list' and args and isinstance(args[0], VAny):
            return one(VAny())
        if name == 'list':
            if not args:
                return one(self.new_list(st, ('any',), [], node))
            v = args[0]
            if isinstance(v, VTuple):
                return one(self.new_list(st, self.infer_elem(st, v.items, node), v.items, node))
            if isinstance(v, VList):
                new = VList(v.elem, st.alloc)
                st.alloc = simp(st.alloc + 1)
                self.tag_list(st, new)
                self.list_set_len(st, new, self.list_len(st, v))
                for j, sort in enumerate(slots(v.elem)):
                    key = self.items_key(v.elem, j)
                    a = self.harr(st, key, z3.ArraySort(IntS, sort))
                    self.hset(st, key, z3.Store(a, new.t, z3.Select(a, v.t)))
                return one(new)
            raise Unsupported('list() of ' + v.kind, node)
        if name == 'tuple' and len(args) == 1 and isinstance(args[0], VTuple):
            return one(args[0])
        if name == 'print':
            return one(NONE)
        if name in ('filter', 'map', 'zip', 'reversed', 'sorted', 'set'):
            self.note('builtin %s(): opaque iterable (only iterated / passed on)' % name)
            return one(VAny())
        if name == 'list' and args and isinstance(args[0], VAny):
            return one(VAny())
        raise Unsupported('builtin %s' % name, node)

    def int_str(self, st, t):
        "str(int): an uninterpreted but deterministic string (at least one character)"
        arr = z3.Function('IntStrArr', IntS, ArrII)(t)
        ln = z3.Function('IntStrLen', IntS, IntS)(t)
        st.assume(ln >= 1)
        return VStr(arr, z3.IntVal(0), ln)

    def isinstance_(self, st, v, cv, node):
        if isinstance(cv, VClass):
            cname = REG.class_name(cv.module, cv.name)
            if isinstance(v, VRef):
                if cname is None:
                    raise Unsupported('isinstance against class without contract: ' + cv.name, node)
                if REG.is_subclass(v.cls, cname):
                    return TRUE
                return self.class_is(st, v.t, cname)
            return FALSE
        if isinstance(cv, VFn) and cv.what[0] == 'builtin':
            n = cv.what[1]
            table = {'list': (VList,), 'str': (VStr, VCh), 'int': (VInt, VBool), 'dict': (VRec,),
                     'tuple': (VTuple,), 'float': (VFloat,), 'bool': (VBool,)}
            if n in table:
                if isinstance(v, VAny):
                    return z3.Function('isinstance_%s_any' % n, IntS, BoolS)(v.t)
                if isinstance(v, VConst):
                    return z3.BoolVal(isinstance(v.py, {'list': list, 'dict': dict, 'tuple': tuple}.get(n, ())))
                return z3.BoolVal(isinstance(v, table[n]))
        raise Unsupported('isinstance against %s' % (cv,), node)

    def all_decimal(self, st, v):
        "non-empty and every character satisfies str.isdecimal"
        USED_CHAR_AXIOMS[0] = True
        if isinstance(v, VCh):
            return AND(v.t >= 0, isdecimal_uf(v.t))
        if v.lit is not None:
            return z3.BoolVal(v.lit.isdecimal())
        # quantified over *absolute* array positions, so that the pattern Select(arr, k) matches the
        # facts produced by chars_hold() whatever the view offsets are
        k = fresh_int('qk')
        lo = simp(v.off)
        hi = simp(v.off + v.ln)
        return AND(v.ln > 0, z3.ForAll([k], z3.Implies(z3.And(k >= lo, k < hi),
                                                        z3.And(z3.Select(v.arr, k) >= 0, isdecimal_uf(z3.Select(v.arr, k))))))

    def to_int(self, st, v, node):
        if isinstance(v, (VInt, VBool)):
            return [(st, VInt(self.num(v)))]
        if isinstance(v, VFloat):
            self.note('A-float: int(float) modelled as real-to-int truncation')
            t = fresh_int('trunc')
            st.assume(z3.If(v.t >= 0, z3.And(z3.ToReal(t) <= v.t, v.t < z3.ToReal(t) + 1),
                            z3.And(z3.ToReal(t) >= v.t, v.t > z3.ToReal(t) - 1)))
            return [(st, VInt(t))]
        if isinstance(v, (VStr, VCh)):
            if isinstance(v, VStr) and v.lit is not None:
                try:
                    return [(st, VInt(int(v.lit)))]
                except ValueError:
                    self.prove(st, FALSE, 'aorte', node, 'ValueError: int(%r)' % v.lit)
                    raise PathDead()
            self.note('A-int: int(s) does not raise when s is non-empty and every character is str.isdecimal; '
                      'the value is then >= 0 (checked against CPython by the self-test)')
            self.prove(st, self.all_decimal(st, v), 'aorte', node, 'ValueError: %s needs a non-empty decimal string' % ast.unparse(node))
            t = fresh_int('intval')
            st.assume(t >= 0)
            return [(st, VInt(t))]
        if isinstance(v, VNone):
            self.prove(st, FALSE, 'aorte', node, 'TypeError: int(None)')
            raise PathDead()
        raise Unsupported('int() of ' + v.kind, node)

    def numshape(self, arr, lo, hi):
        """the characters arr[lo:hi] have the shape  -?d+ | -?d+. | -?d+.d+ | -?.d+   (d = str.isdecimal).
        Existential over the two split points (end of sign, end of integer part); absolute positions."""
        # an uninterpreted predicate DEFINED as  exists a, p. numshape_body(arr, lo, hi, a, p).  It is
        # established only through the explicit-witness form (numshape with 5 arguments) and consumed only
        # by float() (axiom A-floatstr), so the solver never has to find the witnesses itself.
        return z3.Function('numshape', ArrII, IntS, IntS, BoolS)(arr, lo, hi)

    def numshape_body(self, arr, lo, hi, a, p):
        USED_CHAR_AXIOMS[0] = True
        k = fresh_int('qk')
        dec = lambda x, y: z3.ForAll([k], z3.Implies(z3.And(k >= x, k < y),
                                                      z3.And(z3.Select(arr, k) >= 0, isdecimal_uf(z3.Select(arr, k)))))
        return z3.And(lo <= a, a <= p, p <= hi,
                      z3.Or(a == lo, z3.And(a == lo + 1, z3.Select(arr, lo) == ord('-'))),
                      dec(a, p),
                      z3.Or(p == hi, z3.And(z3.Select(arr, p) == ord('.'), dec(p + 1, hi))),
                      # at least one digit
                      z3.Or(p > a, hi > p + 1))

    def to_float(self, st, v, node):
        if isinstance(v, (VInt, VBool)):
            return [(st, VFloat(z3.ToReal(self.num(v))))]
        if isinstance(v, VFloat):
            return [(st, v)]
        if isinstance(v, (VStr, VCh)):
            v = self.as_str(v)
            if v.lit is not None:
                try:
                    return [(st, VFloat(float(v.lit)))]
                except ValueError:
                    self.prove(st, FALSE, 'aorte', node, 'ValueError: float(%r)' % v.lit)
                    raise PathDead()
            self.note('A-floatstr: float(s) does not raise when s has the shape -?d+ | -?d+. | -?d+.d+ | -?.d+ with '
                      'd = str.isdecimal (checked against CPython by the self-test)')
            arr, off, n = str_parts(v)
            self.prove(st, self.numshape(arr, simp(off), simp(off + n)), 'aorte', node,
                       'ValueError: %s needs a string of number shape' % ast.unparse(node))
            return [(st, VFloat(fresh(RealS, 'floatval')))]
        if isinstance(v, VNone):
            self.prove(st, FALSE, 'aorte', node, 'TypeError: float(None)')
            raise PathDead()
        raise Unsupported('float() of ' + v.kind, node)

    # ------------------------------------------------------------ str methods
    def call_strmethod(self, st, sv, name, args, kwargs, node):
        if name in ('isdecimal', 'isdigit'):
            USED_CHAR_AXIOMS[0] = True
            self.note('A-decimal: str.isdecimal/isdigit are uninterpreted on non-ASCII code points, true on '
                      'U+0030..U+0039, false on the other ASCII code points (checked against CPython by the self-test)')
            uf = isdecimal_uf if name == 'isdecimal' else isdigit_uf
            if isinstance(sv, VCh):
                return [(st, VBool(AND(sv.t >= 0, uf(sv.t))))]
            if sv.lit is not None:
                return [(st, VBool(getattr(sv.lit, name)()))]
            i = fresh_int('qi')
            return [(st, VBool(AND(sv.ln > 0, z3.ForAll([i], z3.Implies(z3.And(i >= 0, i < sv.ln),
                                                                  uf(z3.Select(sv.arr, sv.off + i)))))))]
        s = self.as_str(sv)
        if name in ('endswith', 'startswith'):
            a = args[0]
            if isinstance(a, VCh):
                a = self.as_str(a)
            if isinstance(a, VStr) and a.lit is not None:
                if s.lit is not None:
                    return [(st, VBool(getattr(s.lit, name)(a.lit)))]
                n = len(a.lit)
                base = s.off if name == 'startswith' else s.off + s.ln - n
                return [(st, VBool(AND(s.ln >= n, *[z3.Select(s.arr, base + i) == ord(c) for i, c in enumerate(a.lit)])))]
            raise Unsupported('%s with non-literal argument' % name, node)
        if name in ('lower', 'upper'):
            if s.lit is not None:
                return [(st, VStr(lit=getattr(s.lit, name)()))]
            self.note('str.lower/upper: uninterpreted but deterministic function of the string view (no length axiom)')
            arr = z3.Function('Str_%s_arr' % name, ArrII, IntS, IntS, ArrII)(s.arr, s.off, s.ln)
            ln = z3.Function('Str_%s_len' % name, ArrII, IntS, IntS, IntS)(s.arr, s.off, s.ln)
            st.assume(ln >= 0)
            # the empty string maps to the empty string
            st.assume(z3.Implies(s.ln == 0, ln == 0))
            return [(st, VStr(arr, z3.IntVal(0), ln))]
        if name in ('strip', 'lstrip', 'rstrip'):
            if s.lit is not None and not args:
                return [(st, VStr(lit=getattr(s.lit, name)()))]
            arr, off, n = str_parts(s)
            o2, n2 = fresh_int('stripoff'), fresh_int('striplen')
            st.assume(AND(o2 >= off, n2 >= 0, o2 + n2 <= off + n))
            if name == 'lstrip':
                st.assume(o2 + n2 == off + n)
            if name == 'rstrip':
                st.assume(o2 == off)
            self.note('str.strip: trusted contract "the result is a sub-view of the receiver"')
            return [(st, VStr(arr, o2, n2))]
        if name in ('replace', 'format', 'join', 'title', 'capitalize', 'ljust', 'rjust', 'zfill'):
            return [(st, self.make_fresh(st, ('str',), name))]
        if name == 'find':
            r = fresh_int('find')
            st.assume(AND(r >= -1, r < ITE(str_len(s) > 0, str_len(s), z3.IntVal(1))))
            return [(st, VInt(r))]
        if name in ('isalpha', 'isalnum', 'isspace', 'isupper', 'islower'):
            return [(st, VBool(fresh_bool(name)))]
        raise Unsupported('str method %s' % name, node)

    # ------------------------------------------------------------ list methods
    def call_listmethod(self, st, l, name, args, kwargs, node):
        n = self.list_len(st, l)
        if name == 'append':
            self.list_set(st, l, n, args[0], node)
            self.list_set_len(st, l, simp(n + 1))
            return [(st, NONE)]
        if name == 'pop':
            if args:
                i = args[0]
                iv = simp(self.num(i))
                if not (z3.is_int_value(iv) and iv.as_long() == -1):
                    # pop(k): removes an arbitrary element -> contents havocked, length - 1
                    idx = self.norm_index(st, iv, n, node, ast.unparse(node))
                    v = self.list_get(st, l, idx)
                    self.fresh_list_contents(st, l)
                    st.assume(self.list_len(st, l) == n - 1)
                    return [(st, v)]
            self.prove(st, n > 0, 'aorte', node, 'IndexError: pop from empty list: ' + ast.unparse(node))
            v = self.list_get(st, l, simp(n - 1))
            self.list_set_len(st, l, simp(n - 1))
            return [(st, v)]
        if name == 'clear':
            self.list_set_len(st, l, z3.IntVal(0))
            return [(st, NONE)]
        if name in ('insert', 'extend', 'sort', 'reverse', 'remove'):
            old_n = n
            old_items = [z3.Select(self.harr(st, self.items_key(l.elem, j), z3.ArraySort(IntS, sort)), l.t)
                         for j, sort in enumerate(slots(l.elem))] if name == 'reverse' else None
            self.fresh_list_contents(st, l)
            n2 = self.list_len(st, l)
            if name == 'reverse':
                # exact: item i of the reversed list is item n-1-i of the original
                for j, sort in enumerate(slots(l.elem)):
                    new_items = z3.Select(self.harr(st, self.items_key(l.elem, j), z3.ArraySort(IntS, sort)), l.t)
                    i_ = fresh_int('rv')
                    st.assume(z3.ForAll([i_], z3.Implies(AND(i_ >= 0, i_ < old_n),
                                                         z3.Select(new_items, i_) == z3.Select(old_items[j], old_n - 1 - i_)),
                                        patterns=[z3.Select(new_items, i_)]))
            if name == 'insert':
                st.assume(n2 == old_n + 1)
            elif name in ('sort', 'reverse'):
                st.assume(n2 == old_n)
            elif name == 'extend':
                a = args[0]
                if isinstance(a, VList):
                    st.assume(n2 == old_n + self.list_len(st, a))
                else:
                    st.assume(n2 >= old_n)
            else:
                st.assume(n2 == old_n - 1)
            return [(st, NONE)]
        if name == 'copy':
            return self.call_builtin(st, 'list', [l], {}, node)
        if name == 'index':
            r = fresh_int('index')
            st.assume(AND(r >= 0, r < n))
            return [(st, VInt(r))]
        raise Unsupported('list method %s' % name, node)

    # ------------------------------------------------------------ dict methods
    def call_dictmethod(self, st, d, name, args, kwargs, node):
        if name in ('get', 'pop', 'setdefault') and args and isinstance(args[0], VU) and not st.spec:
            res = []
            for s2, k in self.force(st, args[0]):
                try:
                    res.extend(self.call_dictmethod(s2, d, name, [k] + list(args[1:]), kwargs, node))
                except PathDead:
                    pass
            return res
        if isinstance(d, (VMap, VAny)):
            m = self.as_map(st, d, node)
            if name == 'get':
                k = args[0]
                dflt = args[1] if len(args) > 1 else NONE
                has = simp(self.map_has(st, m, k))
                return [(st, mk_union([(has, self.map_at(st, m, k)), (NOT(has), dflt)]))]
            if name == 'update':
                def upd(s, src):
                    sm = self.as_map(s, src, node)
                    if sm is None:
                        if isinstance(src, VNone):
                            self.prove(s, FALSE, 'aorte', node, "TypeError: 'NoneType' object is not iterable (dict.update)")
                            raise PathDead()
                        raise Unsupported('dict.update from %s' % src.kind, node)
                    self.map_update(s, m, sm)
                    return [(s, NONE)]
                return self.umap(st, args[0], upd, node)
            raise Unsupported('dict method %s on a map' % name, node)
        if isinstance(d, VConst) and isinstance(d.py, dict):
            if name == 'get':
                k = args[0]
                dflt = args[1] if len(args) > 1 else NONE
                alts = []
                hit = []
                for key, val in d.py.items():
                    c = self.eq(st, k, from_py(key), node)
                    hit.append(c)
                    alts.append((AND(c, *[NOT(h) for h in hit[:-1]]), from_py(val)))
                alts.append((AND(*[NOT(h) for h in hit]), dflt))
                return [(st, mk_union(alts))]
            if name == 'update':
                raise Unsupported('update of a module-level constant dict', node)
        if isinstance(d, VRec):
            if name == 'get':
                k = args[0]
                dflt = args[1] if len(args) > 1 else NONE
                if isinstance(k, VStr) and k.lit is not None:
                    if k.lit in self.rec_fields(d.name):
                        pres = simp(self.rec_present(st, d, k.lit))
                        val = self.rec_load(st, d, k.lit, node, check=False)
                        return [(st, mk_union([(pres, val), (NOT(pres), dflt)]))]
                    return [(st, dflt)]
            if name == 'update':
                def upd(s, src):
                    if isinstance(src, VNone):
                        self.prove(s, FALSE, 'aorte', node, "TypeError: 'NoneType' object is not iterable (dict.update)")
                        raise PathDead()
                    if isinstance(src, VConst) and isinstance(src.py, dict):
                        for k2, v2 in src.py.items():
                            self.rec_store(s, d, k2, from_py(v2), node)
                        return [(s, NONE)]
                    if isinstance(src, VRec):
                        self.rec_update(s, d, src, node)
                        return [(s, NONE)]
                    raise Unsupported('dict.update from %s' % src.kind, node)
                return self.umap(st, args[0], upd, node)
        raise Unsupported('dict method %s on %s' % (name, d.kind), node)
