"""python3-vt -m pyvc.cli verify <key>... | all   -- developer front end"""
import sys
import time
sys.path.insert(0, '/verif')
from pyvc.run import Verifier
from pyvc.contracts import REG
from pyvc import smt
import contracts  # noqa


def main(argv):
    keys = argv[1:]
    if keys == ['all'] or not keys:
        keys = [k for k, c in REG.fns.items() if not c.inline and not c.trusted]
    tot = [0, 0]
    for key in keys:
        v = Verifier()
        r = v.verify(key)
        obs = r['obligations']
        nd = sum(1 for o in obs if o.verdict == 'unsat')
        tot[0] += len(obs)
        tot[1] += nd
        print('%-60s %-9s %3d/%3d obligations  %.2fs  paths=%d exits=%d %s' % (
            key, r['status'], nd, len(obs), r['secs'], r['paths'], r['exits'], r['reason'] or ''))
        for o in obs:
            if o.verdict != 'unsat':
                print('   %s: %s [%s]' % (o.verdict.upper(), o.name, o.backend))
                if o.model:
                    print('      model:', str(o.model)[:600])
                print('      trace:', ' '.join(o.trace or []))
        for u in r['unmodelled']:
            print('   unmodelled:', u)
    print('TOTAL %d/%d' % (tot[1], tot[0]), smt.STATS)


if __name__ == '__main__':
    main(sys.argv)
