"""pyvc.contracts -- registry and tiny DSL for sidecar contracts.

A contract is data.  Every clause is a Python expression in a string; the VC
generator parses it with `ast` and translates it with the same translator it uses
for repository code (spec mode); the run-time monitor evals the same string in
CPython (see monitor/).
"""
import re


class FnContract:
    def __init__(self, key, **kw):
        self.key = key
        self.params = kw.pop('params', {})          # name -> type string
        self.returns = kw.pop('returns', 'none')    # type string
        self.requires = kw.pop('requires', [])
        self.ensures = kw.pop('ensures', [])
        self.ensures_on_raise = kw.pop('ensures_on_raise', [])
        self.ensures_local = kw.pop('ensures_local', [])   # postconditions proved for the function but not handed to
                                                           # callers (quantifier in a negative position: costly to assume)
        self.raises = kw.pop('raises', [])          # list of exception class names
        self.modifies = kw.pop('modifies', [])      # ['scanner.pos', 'result[*]', ...]
        self.loops = kw.pop('loops', {})            # ordinal -> {anchor, invariant, decreases}
        self.inline = kw.pop('inline', False)       # body is used at call sites (pure / tiny)
        self.pure = kw.pop('pure', False)           # may be called from spec expressions
        self.trusted = kw.pop('trusted', False)     # contract assumed, body not verified
        self.locals = kw.pop('locals', {})          # declared types for locals (havoc typing)
        self.callback = kw.pop('callback', None)    # {'param':..., 'args': [...], 'requires': [...]}
        self.captures = kw.pop('captures', {})      # closure: captured name -> type
        self.closure_invariant = kw.pop('closure_invariant', [])
        self.allocates = kw.pop('allocates', None)
        self.ghost = kw.pop('ghost', {})
        self.props = kw.pop('props', [])            # property ids this contract serves
        self.note = kw.pop('note', '')
        self.decreases = kw.pop('decreases', None)  # recursion: list of integer expressions over the parameters, compared
                                                    # lexicographically; checked at calls inside the same rec_group
        self.rec_group = kw.pop('rec_group', None)  # name of the group of mutually recursive functions
        self.known = kw.pop('known', [])            # except_known carve-outs
        self.terminates = kw.pop('terminates', None)
        self.lemmas = kw.pop('lemmas', [])            # proved at every normal exit, before ensures; may name locals
        self.stable = kw.pop('stable', [])            # closures: reflexive-transitive two-state clauses (x == old(x), ...):
                                                      # proved as postconditions, assumed across a callee that calls the closure
        self.ghost_code = kw.pop('ghost_code', {})    # statement anchor (unparsed) -> ['ghost = expr', ...] run after it
        self.calls = kw.pop('calls', {})              # opaque callables held in locals: name -> {'requires': [...], 'returns': T}
        self.class_alias = kw.pop('class_alias', None)       # real class name -> registry name used in this function
        self.list_literals = kw.pop('list_literals', None)   # element type of list literals that initialise no declared local
        self.ghost_update = kw.pop('ghost_update', [])   # closures: ghost updates the callee applies after each call
        if kw:
            raise TypeError('unknown contract clause(s): %s' % ', '.join(kw))


class ClsContract:
    def __init__(self, key, fields, bases=(), invariant=(), props=(), alias=None):
        self.key = key                  # 'module:Class'
        self.real = key.split(':', 1)[1]    # the class name in the source
        self.name = alias or self.real      # registry-unique name used in type strings
        self.module = key.split(':', 1)[0]
        self.fields = dict(fields)      # field -> type string
        self.bases = list(bases)        # class names (contract level)
        self.invariant = list(invariant)


class Registry:
    def __init__(self):
        self.fns = {}
        self.classes = {}      # class name -> ClsContract  (names are unique in this code base per use)
        self.recs = {}         # record name -> {key: type}
        self.defs = {}         # spec helper name -> (params, expr string)
        self.rec_optional = set()
        self.by_real = {}      # (module, real class name) -> registry name
        self.globs = {}        # 'module:NAME' -> type string
        self.glob_invariants = {}
        self.class_ids = {}

    def fn(self, key, **kw):
        if key in self.fns:
            raise KeyError('duplicate contract for ' + key)
        c = FnContract(key, **kw)
        self.fns[key] = c
        return c

    def cls(self, key, fields, bases=(), invariant=(), alias=None):
        c = ClsContract(key, fields, bases, invariant, alias=alias)
        if c.name in self.classes:
            raise KeyError('duplicate class contract name ' + c.name)
        self.classes[c.name] = c
        self.by_real.setdefault((c.module, c.real), c.name)     # the first registration is the default view
        self.class_ids[c.name] = len(self.class_ids) + 1
        return c

    def rec(self, name, fields, optional=False):
        """dict used as a record with literal string keys.  optional=True: every key may be absent
        (option dictionaries such as {'throws': False})"""
        self.recs[name] = dict(fields)
        if optional:
            self.rec_optional.add(name)

    def define(self, name, params, expr):
        self.defs[name] = (list(params), expr)

    def glob(self, key, type_str_, invariant=()):
        """module-level table whose initialiser is not a literal (or that is deliberately kept abstract):
        an opaque global object of the given type, never modified unless a frame obligation fails.
        `invariant`: facts about its (constant) content, read off the initialiser, assumed at function entry"""
        self.globs[key] = type_str_
        self.glob_invariants[key] = list(invariant)

    def class_name(self, module, real):
        "registry name of the class `real` defined in `module` (None if it has no contract)"
        n = self.by_real.get((module, real))
        # a real class registered under several names (one view per element type): the function under proof says
        # which view it uses (contract clause class_alias={'TokenScanner': 'CssTokenScanner'})
        cur = self.fns.get(self.current_fn) if getattr(self, 'current_fn', None) else None
        if cur is not None and cur.class_alias and real in cur.class_alias:
            return cur.class_alias[real]
        return n

    # -- class helpers
    def field_decl(self, clsname, field):
        "returns (declaring class name, type string) or None"
        seen = set()
        todo = [clsname]
        while todo:
            c = todo.pop(0)
            if c in seen:
                continue
            seen.add(c)
            cc = self.classes.get(c)
            if cc is None:
                continue
            if field in cc.fields:
                return c, cc.fields[field]
            todo.extend(cc.bases)
        return None

    def is_subclass(self, c, base):
        seen = set()
        todo = [c]
        while todo:
            x = todo.pop()
            if x == base:
                return True
            if x in seen:
                continue
            seen.add(x)
            cc = self.classes.get(x)
            if cc:
                todo.extend(cc.bases)
        return False

    def subclasses(self, base):
        return [c for c in self.classes if self.is_subclass(c, base)]


REG = Registry()
fn = REG.fn
cls = REG.cls
rec = REG.rec
define = REG.define
glob = REG.glob


# ---------------------------------------------------------------------------
# type strings
# ---------------------------------------------------------------------------

_tok = re.compile(r'\s*([A-Za-z_][A-Za-z_0-9:.]*|\[|\]|\||,|\'[^\']*\')')


def parse_type(s):
    """-> canonical tuple:
       ('int',) ('bool',) ('none',) ('char',) ('echar',) ('str',) ('float',) ('any',)
       ('pred',) ('ref', Class) ('list', T) ('tuple', (T,...)) ('union', (T,...))
       ('rec', name) ('enum', (str,...)) ('fn',)"""
    toks = _tok.findall(s)
    if ''.join(toks).replace(' ', '') != s.replace(' ', ''):
        raise ValueError('bad type string: %r' % s)
    pos = [0]

    def peek():
        return toks[pos[0]] if pos[0] < len(toks) else None

    def take():
        t = toks[pos[0]]
        pos[0] += 1
        return t

    def atom():
        t = take()
        if t in ('int', 'bool', 'none', 'char', 'echar', 'str', 'float', 'any', 'pred', 'fn', 'map'):
            return (t,)
        if t == 'None':
            return ('none',)
        if t == 'list':
            assert take() == '['
            e = union()
            assert take() == ']'
            return ('list', e)
        if t == 'tuple':
            assert take() == '['
            items = [union()]
            while peek() == ',':
                take()
                items.append(union())
            assert take() == ']'
            return ('tuple', tuple(items))
        if t == 'enum':
            assert take() == '['
            items = [take().strip("'")]
            while peek() == ',':
                take()
                items.append(take().strip("'"))
            assert take() == ']'
            return ('enum', tuple(items))
        if t.startswith('rec:'):
            return ('rec', t[4:])
        return ('ref', t)

    def union():
        items = [atom()]
        while peek() == '|':
            take()
            items.append(atom())
        if len(items) == 1:
            return items[0]
        flat = []
        for i in items:
            if i[0] == 'union':
                flat.extend(i[1])
            else:
                flat.append(i)
        return ('union', tuple(flat))

    r = union()
    if pos[0] != len(toks):
        raise ValueError('trailing tokens in type %r' % s)
    return r


def type_str(t):
    k = t[0]
    if k in ('int', 'bool', 'none', 'char', 'echar', 'str', 'float', 'any', 'pred', 'fn', 'map'):
        return k
    if k == 'ref':
        return t[1]
    if k == 'list':
        return 'list[%s]' % type_str(t[1])
    if k == 'tuple':
        return 'tuple[%s]' % ','.join(type_str(x) for x in t[1])
    if k == 'union':
        return '|'.join(type_str(x) for x in t[1])
    if k == 'rec':
        return 'rec:' + t[1]
    if k == 'enum':
        return 'enum[%s]' % ','.join(t[1])
    raise ValueError(t)
