"""pyvc.engine -- forward symbolic execution of real function bodies against sidecar
contracts; one SMT query per (obligation, path)."""
import ast
import time
import z3

from . import loader, smt
from .values import *
from .state import *
from .contracts import REG, parse_type, type_str

MAX_INLINE_DEPTH = 12
MAX_PATHS = int(__import__('os').environ.get('PYVC_MAX_PATHS', '6000'))

LIST_LEN = ('$list', 'len', 0)
LIST_ETYPE = ('$list', 'etype', 0)
_ETYPE_IDS = {}


def etype_id(elem):
    k = type_str(elem)
    if k not in _ETYPE_IDS:
        _ETYPE_IDS[k] = len(_ETYPE_IDS) + 1
    return _ETYPE_IDS[k]
OBJ_CLS = ('$obj', 'cls', 0)


class Obligation:
    __slots__ = ('fn', 'kind', 'line', 'text', 'verdict', 'backend', 'secs', 'model', 'trace', 'size')

    def __init__(self, fn, kind, line, text):
        self.fn = fn
        self.kind = kind
        self.line = line
        self.text = text
        self.verdict = None
        self.backend = None
        self.secs = 0.0
        self.model = None
        self.trace = None
        self.size = 0

    @property
    def name(self):
        return '%s#%s@L%s "%s"' % (self.fn, self.kind, self.line, self.text)


class Engine:
    def __init__(self):
        self.obligations = []
        self.unmodelled = []
        self.dead_after_call = []
        self.loop_body_seen = {}
        self.assumptions = set()
        self.cur_key = None
        self.exc_sink = []
        self.npaths = 0
        self.entry_info = None
        self.exits = 0
        self._pure_cache = {}
        self.cur_inline = None
        self.deadline = None
        self.budget_hit = False

    # ------------------------------------------------------------------ utils
    def note(self, text):
        self.assumptions.add(text)

    def line(self, node):
        return getattr(node, 'lineno', 0) if node is not None else 0

    def base_axioms(self):
        ax = list(LIT_AXIOMS)
        if USED_CHAR_AXIOMS[0]:
            ax.extend(CHAR_AXIOMS)
        if USED_SUMLEN[0]:
            ax.extend(SUMLEN_AXIOMS)
        return ax

    def feasible(self, st, extra=None):
        if self.deadline is not None and time.time() > self.deadline + 30:
            self.budget_hit = True
            raise Unsupported('time budget per function exhausted during path exploration')
        a = list(st.pc)
        if extra is not None:
            a.append(extra)
        return smt.feasible(a + self.base_axioms())

    def prove(self, st, goal, kind, node, text):
        """emit one proof obligation `pc => goal`; afterwards the goal is assumed on the path"""
        if st.spec:
            return
        ob = Obligation(self.cur_key, kind, self.line(node), text)
        if is_true(goal):
            ob.verdict = 'unsat'
            ob.backend = 'simplifier'
            self.obligations.append(ob)
            return
        if self.deadline is not None and time.time() > self.deadline:
            # per-function time budget exhausted: the obligation is left undecided (never a verdict)
            ob.verdict = 'unknown'
            ob.backend = 'budget'
            ob.trace = list(st.trace)
            self.obligations.append(ob)
            self.budget_hit = True
            return
        q = list(st.pc) + self.base_axioms() + [NOT(goal)]
        ob.size = sum(len(str(x)) for x in q[-3:]) if False else len(q)
        verdict, model, backend, secs = smt.decide(q)
        ob.verdict, ob.backend, ob.secs = verdict, backend, secs
        ob.trace = list(st.trace)
        if verdict == 'sat':
            ob.model = self.extract_model(st, q, model)
        elif verdict == 'unknown' and backend != 'budget' and not smt.has_quant(goal):
            # no verdict and no model: a model of the quantifier-free facts alone is kept as a CANDIDATE entry state.
            # It decides nothing here; check.py replays it on the real code and only a failure observed there counts.
            try:
                s_ = z3.Solver()
                s_.set('timeout', 3000)
                s_.add(*[a for a in q if not smt.has_quant(a)])
                if s_.check() == z3.sat:
                    ob.model = self.extract_model(st, [a for a in q if not smt.has_quant(a)], s_.model())
            except Exception:
                ob.model = None
        self.obligations.append(ob)
        # a proved goal is implied by the path condition; it is added only in a shape that helps later
        # queries (quantifier-free, or a plain universal): a quantifier under if/or/implies slows them down
        if verdict != 'unsat' or self.assumable(goal):
            st.assume(goal)
        if verdict == 'sat' and is_false(goal):
            raise PathDead()

    def assumable(self, g):
        if not smt.has_quant(g):
            return True
        if z3.is_quantifier(g):
            return g.is_forall()
        if z3.is_and(g):
            return all(self.assumable(k) for k in g.children())
        return False

    # ------------------------------------------------------------ model extraction
    def extract_model(self, st, q, model):
        """turn a z3 model into concrete entry values of the function under proof; tries to
        refine towards printable characters so that the counterexample is realisable"""
        info = self.entry_info
        if info is None:
            return None
        strs = info['strings']
        # refinement: ask for short printable strings if still satisfiable
        best = model
        try:
            s = z3.Solver()
            s.set('timeout', 3000)
            s.add(*q)
            cons = []
            for (arr, off, ln) in strs:
                s2 = []
                s2.append(ln <= 12)
                cons.extend(s2)
            s.push()
            s.add(*cons)
            if s.check() == z3.sat:
                m = s.model()
                best = m
                cons2 = []
                for (arr, off, ln) in strs:
                    try:
                        n = m.eval(ln, model_completion=True).as_long()
                        o = m.eval(off, model_completion=True).as_long()
                    except Exception:
                        continue
                    for i in range(max(0, min(n, 12))):
                        c = z3.Select(arr, o + i)
                        cons2.append(z3.And(c >= 32, c <= 126))
                    cons2.append(ln == n)
                    cons2.append(off == o)
                s.add(*cons2)
                if s.check() == z3.sat:
                    best = s.model()
            s.pop()
        except Exception:
            pass
        if best is None:
            return None
        out = {}
        for name, getter in info['getters'].items():
            try:
                out[name] = getter(best)
            except Exception as e:  # pragma: no cover
                out[name] = '<?%s>' % e
        return out

    # ------------------------------------------------------------------ heap
    def base_array(self, gen, key, sort):
        name = 'H%d.%s.%s.%s' % (gen, key[0] if isinstance(key[0], str) else '_'.join(key[0]), key[1], key[2])
        return z3.Const(name, z3.ArraySort(IntS, sort))

    def harr(self, st, key, sort):
        a = st.heap.get(key)
        if a is None:
            a = self.base_array(st.hgen, key, sort)
            st.heap[key] = a
            # a generation created by an ownership-respecting havoc agrees with its parent below the bound
            g = st.hgen
            cur = a
            while g in st.hgen_parent:
                pg, bound = st.hgen_parent[g]
                pa = self.base_array(pg, key, sort)
                r = fresh_int('fr')
                st.assume(z3.ForAll([r], z3.Implies(r < bound, z3.Select(cur, r) == z3.Select(pa, r))))
                cur = pa
                g = pg
        return a

    def hset(self, st, key, arr):
        st.heap[key] = arr
        st.hver += 1

    def field_info(self, clsname, field, node=None):
        fi = REG.field_decl(clsname, field)
        if fi is None:
            raise Unsupported('field %s.%s has no declared type in the contracts' % (clsname, field), node)
        return fi[0], parse_type(fi[1])

    def load_slots(self, st, owner, field, T, ref_t):
        terms = []
        for j, sort in enumerate(slots(T)):
            terms.append(z3.Select(self.harr(st, (owner, field, j), sort), ref_t))
        return terms

    def load_field(self, st, ref, field, node=None):
        owner, T = self.field_info(ref.cls, field, node)
        terms = self.load_slots(st, owner, field, T, ref.t)
        v = self.unflatten(st, T, terms)
        return v

    def check_fresh_write(self, st, ref_t, node, what):
        "inside a loop declared writes='fresh' every write goes to an object allocated by this call"
        if st.fresh_only is None or st.spec:
            return
        bound, exempt, region = st.fresh_only
        alts = [ref_t == e for e in exempt]
        if bound is not None:
            alts.append(ref_t >= bound)
        if region is not None:
            alts.append(self.elem_member(region, ref_t))
        self.prove(st, OR(*alts), 'frame', node,
                   'loop declared writes=%s: %s stays inside that region'
                   % ('fresh' if region is None else 'elements', what))

    # -- "the elements of list L" as a write region (modifies 'L[*].f', loop writes='elements:L')
    def elems_snapshot(self, st, l, node=None):
        "(items array, length) of a list of object references, as of state st"
        if not isinstance(l, VList) or len(slots(l.elem)) != 1 or slots(l.elem)[0] != IntS:
            raise Unsupported('element region of a list that does not hold plain object references', node)
        a = self.harr(st, self.items_key(l.elem, 0), z3.ArraySort(IntS, IntS))
        return (z3.Select(a, l.t), self.list_len(st, l))

    def elem_member(self, region, r):
        items, n = region
        i = fresh_int('mi')
        return z3.Exists([i], AND(i >= 0, i < n, z3.Select(items, i) == r), patterns=[z3.Select(items, i)])

    def elem_not_member(self, region, r):
        items, n = region
        i = fresh_int('mi')
        return z3.ForAll([i], z3.Implies(AND(i >= 0, i < n), z3.Select(items, i) != r), patterns=[z3.Select(items, i)])

    def quick_valid(self, st, goal, ms=1500):
        "silent validity test of an auxiliary fact (never an obligation; `False` also means `do not know`)"
        s = z3.Solver()
        s.set('timeout', ms)
        s.add(*(list(st.pc) + self.base_axioms() + [NOT(goal)]))
        return s.check() == z3.unsat

    def elem_frame_axiom(self, st, region, new, cur):
        """new[r] == cur[r] unless r is an element of the region.
        Cheap form first: when every element is provably younger than this call (or than the call that
        owns the running closure), `r < bound => unchanged` says all a caller can need about older objects
        and creates no index terms.  General form: the existential is skolemised -- for every r either
        idx(r) is an index of r in the list or the location is unchanged."""
        items, n = region
        i = fresh_int('mi')
        r = fresh_int('fr')
        for b in (st.owner_bound, st.old.alloc if st.old is not None else None):
            if b is None:
                continue
            young = z3.ForAll([i], z3.Implies(AND(i >= 0, i < n), z3.Select(items, i) >= b),
                              patterns=[z3.Select(items, i)])
            if self.quick_valid(st, young):
                st.assume(z3.ForAll([r], z3.Implies(r < b, z3.Select(new, r) == z3.Select(cur, r)),
                                    patterns=[z3.Select(new, r)]))
                return
        idx = z3.Function(fresh_name('idx'), IntS, IntS)
        st.assume(z3.ForAll([r], OR(AND(idx(r) >= 0, idx(r) < n, z3.Select(items, idx(r)) == r),
                                    z3.Select(new, r) == z3.Select(cur, r)),
                            patterns=[z3.Select(new, r)]))

    def store_field(self, st, ref, field, val, node=None):
        self.check_fresh_write(st, ref.t, node, 'store to .%s' % field)
        owner, T = self.field_info(ref.cls, field, node)
        val = self.coerce(st, val, T, node, 'store to %s.%s' % (ref.cls, field))
        terms = self.flatten(st, T, val)
        for j, (sort, t) in enumerate(zip(slots(T), terms)):
            key = (owner, field, j)
            self.hset(st, key, z3.Store(self.harr(st, key, sort), ref.t, t))

    # -- dynamic class of objects
    def dyn_class(self, st, ref_t):
        return z3.Select(self.harr(st, OBJ_CLS, IntS), ref_t)

    def class_is(self, st, ref_t, base):
        subs = REG.subclasses(base)
        d = self.dyn_class(st, ref_t)
        return OR(*[d == REG.class_ids[c] for c in subs])

    def new_object(self, st, clsname):
        if clsname not in REG.classes:
            raise Unsupported('constructor of class without contract: ' + clsname)
        r = st.alloc
        st.alloc = simp(st.alloc + 1)
        self.hset(st, OBJ_CLS, z3.Store(self.harr(st, OBJ_CLS, IntS), r, z3.IntVal(REG.class_ids[clsname])))
        return VRef(clsname, r)

    # -- lists
    def items_key(self, elem, j):
        return ('$items', type_str(elem), j)

    def list_len(self, st, l):
        return z3.Select(self.harr(st, LIST_LEN, IntS), l.t)

    def list_get(self, st, l, idx):
        terms = []
        for j, sort in enumerate(slots(l.elem)):
            a = self.harr(st, self.items_key(l.elem, j), z3.ArraySort(IntS, sort))
            terms.append(z3.Select(z3.Select(a, l.t), idx))
        return self.unflatten(st, l.elem, terms)

    def list_set(self, st, l, idx, val, node=None):
        self.check_fresh_write(st, l.t, node, 'list write')
        val = self.coerce(st, val, l.elem, node, 'list element')
        terms = self.flatten(st, l.elem, val)
        for j, (sort, t) in enumerate(zip(slots(l.elem), terms)):
            key = self.items_key(l.elem, j)
            a = self.harr(st, key, z3.ArraySort(IntS, sort))
            self.hset(st, key, z3.Store(a, l.t, z3.Store(z3.Select(a, l.t), idx, t)))

    def list_set_len(self, st, l, n):
        self.check_fresh_write(st, l.t, None, 'list resize')
        self.hset(st, LIST_LEN, z3.Store(self.harr(st, LIST_LEN, IntS), l.t, n))

    def new_list(self, st, elem, items, node=None):
        r = st.alloc
        st.alloc = simp(st.alloc + 1)
        l = VList(elem, r)
        self.tag_list(st, l)
        self.list_set_len(st, l, z3.IntVal(len(items)))
        for i, it in enumerate(items):
            self.list_set(st, l, z3.IntVal(i), it, node)
        return l

    def tag_list(self, st, l):
        "well-typed heap: a list object holds elements of one declared type"
        self.hset(st, LIST_ETYPE, z3.Store(self.harr(st, LIST_ETYPE, IntS), l.t, z3.IntVal(etype_id(l.elem))))

    def fresh_list_contents(self, st, l):
        "havoc the contents (length and items) of list l"
        n = fresh_int('len')
        st.assume(n >= 0)
        self.list_set_len(st, l, n)
        for j, sort in enumerate(slots(l.elem)):
            key = self.items_key(l.elem, j)
            a = self.harr(st, key, z3.ArraySort(IntS, sort))
            self.hset(st, key, z3.Store(a, l.t, fresh(z3.ArraySort(IntS, sort), 'items')))

    # -- records (dict with literal keys)
    def rec_fields(self, name):
        r = REG.recs.get(name)
        if r is None:
            raise Unsupported('record type %s not declared' % name)
        return r

    def rec_present(self, st, rv, key):
        "is `key` present in the record? (always, for non-optional records)"
        if rv.name not in REG.rec_optional:
            return z3.BoolVal(key in self.rec_fields(rv.name))
        if key not in self.rec_fields(rv.name):
            return FALSE
        return z3.Select(self.harr(st, ('$rec:' + rv.name, key + '?', 0), BoolS), rv.t)

    def rec_set_present(self, st, rv, key, flag):
        if rv.name in REG.rec_optional:
            k = ('$rec:' + rv.name, key + '?', 0)
            self.hset(st, k, z3.Store(self.harr(st, k, BoolS), rv.t, flag))

    def rec_load(self, st, rv, key, node=None, check=True):
        flds = self.rec_fields(rv.name)
        if key not in flds:
            self.prove(st, FALSE, 'aorte', node, 'KeyError %r' % key)
            raise PathDead()
        if check and rv.name in REG.rec_optional:
            self.prove(st, self.rec_present(st, rv, key), 'aorte', node, 'KeyError %r' % key)
        T = parse_type(flds[key])
        terms = self.load_slots(st, '$rec:' + rv.name, key, T, rv.t)
        return self.unflatten(st, T, terms)

    def rec_store(self, st, rv, key, val, node=None):
        self.check_fresh_write(st, rv.t, node, 'dict write')
        flds = self.rec_fields(rv.name)
        if key not in flds:
            raise Unsupported('store of new key %r into record %s' % (key, rv.name), node)
        T = parse_type(flds[key])
        val = self.coerce(st, val, T, node, 'store to %s[%r]' % (rv.name, key))
        terms = self.flatten(st, T, val)
        for j, (sort, t) in enumerate(zip(slots(T), terms)):
            k = ('$rec:' + rv.name, key, j)
            self.hset(st, k, z3.Store(self.harr(st, k, sort), rv.t, t))
        self.rec_set_present(st, rv, key, TRUE)

    def new_rec(self, st, name, items, node=None):
        r = st.alloc
        st.alloc = simp(st.alloc + 1)
        rv = VRec(name, r)
        if name in REG.rec_optional:
            for k in self.rec_fields(name):
                self.rec_set_present(st, rv, k, FALSE)
        for k, v in items.items():
            self.rec_store(st, rv, k, v, node)
        return rv

    def rec_update(self, st, dst, src, node=None):
        "dst.update(src) for records"
        for k in self.rec_fields(src.name):
            if k not in self.rec_fields(dst.name):
                self.prove(st, NOT(self.rec_present(st, src, k)), 'type', node,
                           'update: key %r of %s is not a key of %s' % (k, src.name, dst.name))
                continue
            pres = simp(self.rec_present(st, src, k))
            if is_false(pres):
                continue
            T = parse_type(self.rec_fields(dst.name)[k])
            sv = self.coerce(st, self.rec_load(st, src, k, node, check=False), T, node, 'update key %r' % k)
            if is_true(pres):
                self.rec_store(st, dst, k, sv, node)
                continue
            dv = self.coerce(st, self.rec_load(st, dst, k, node, check=False), T, node, 'update key %r' % k)
            new = [ITE(pres, a, b) for a, b in zip(self.flatten(st, T, sv), self.flatten(st, T, dv))]
            for j, (sort, t) in enumerate(zip(slots(T), new)):
                kk = ('$rec:' + dst.name, k, j)
                self.hset(st, kk, z3.Store(self.harr(st, kk, sort), dst.t, t))
            if dst.name in REG.rec_optional:
                self.rec_set_present(st, dst, k, OR(pres, self.rec_present(st, dst, k)))

    def const_to_rec(self, st, py, name, node=None):
        from .execu import from_py
        flds = self.rec_fields(name)
        for k in py:
            if k not in flds:
                raise TypeMismatch('key %r is not a key of record %s' % (k, name))
        if name not in REG.rec_optional and set(py) != set(flds):
            raise TypeMismatch('dict %r does not have exactly the keys of %s' % (py, name))
        return self.new_rec(st, name, {k: from_py(v) for k, v in py.items()}, node)

    # -- general dicts (maps): dom: ref -> (key id -> Bool), val: ref -> (key id -> value id)
    MAP_DOM = ('$map', 'dom', 0)
    MAP_VAL = ('$map', 'val', 0)
    EMPTY_MAP = z3.IntVal(0)       # reserved reference: the empty mapping (never allocated, never written)

    def map_dom(self, st, ref_t):
        a = self.harr(st, self.MAP_DOM, z3.ArraySort(IntS, BoolS))
        return z3.If(ref_t == 0, z3.K(IntS, FALSE), z3.Select(a, ref_t))

    def map_val(self, st, ref_t):
        a = self.harr(st, self.MAP_VAL, z3.ArraySort(IntS, IntS))
        return z3.Select(a, ref_t)

    def key_term(self, v):
        "key id of a Python value used as a dict key (equal terms give equal ids; literals are pairwise distinct)"
        if isinstance(v, VKey):
            return v.t
        if isinstance(v, VStr):
            if v.lit is not None:
                return self.lit_key(v.lit)
            return self.neg(z3.Function('StrKey', ArrII, IntS, IntS, IntS)(v.arr, v.off, v.ln))
        if isinstance(v, VCh):
            return self.neg(z3.Function('ChKey', IntS, IntS)(v.t))
        if isinstance(v, (VInt, VBool)):
            return self.neg(z3.Function('IntKey', IntS, IntS)(self.num(v)))
        if isinstance(v, VAny):
            return v.t
        if isinstance(v, VNone):
            return z3.IntVal(-7)
        raise Unsupported('dict key of kind ' + v.kind)

    _lit_keys = {}

    @staticmethod
    def neg(u):
        "ids of non-reference values are negative (references are 1 .. alloc-1)"
        return -1000 - z3.If(u >= 0, u, -u)

    def lit_key(self, s):
        k = self._lit_keys.get(s)
        if k is None:
            k = z3.IntVal(-100 - len(self._lit_keys))      # pairwise distinct, negative, disjoint from neg()
            self._lit_keys[s] = k
        return k

    def new_map(self, st):
        r = st.alloc
        st.alloc = simp(st.alloc + 1)
        self.map_write(st, r, z3.K(IntS, FALSE), self.map_val(st, r))
        return VMap(r)

    def map_write(self, st, ref_t, dom, val):
        self.check_fresh_write(st, ref_t, None, 'dict write')
        a = self.harr(st, self.MAP_DOM, z3.ArraySort(IntS, BoolS))
        self.hset(st, self.MAP_DOM, z3.Store(a, ref_t, dom))
        b = self.harr(st, self.MAP_VAL, z3.ArraySort(IntS, IntS))
        self.hset(st, self.MAP_VAL, z3.Store(b, ref_t, val))

    def map_has(self, st, m, k):
        return z3.Select(self.map_dom(st, m.t), self.key_term(k))

    def map_at(self, st, m, k):
        v = z3.Select(self.map_val(st, m.t), self.key_term(k))
        # closed heap: an id stored in a map is a non-reference (negative) or an object allocated earlier
        st.assume(v < st.alloc)
        return VAny(v)

    def map_store(self, st, m, k, v, node=None):
        kt = self.key_term(k)
        if isinstance(v, VU):
            vt = self.flatten(st, ('any',), v.alts[-1][1])[0]
            for c, x in reversed(v.alts[:-1]):
                vt = ITE(c, self.flatten(st, ('any',), x)[0], vt)
        else:
            vt = self.flatten(st, ('any',), v)[0]
        self.map_write(st, m.t, z3.Store(self.map_dom(st, m.t), kt, TRUE), z3.Store(self.map_val(st, m.t), kt, vt))

    def map_update(self, st, m, src):
        "m.update(src): keys of src win"
        k = fresh_int('lk')
        ds, vs = self.map_dom(st, src.t), self.map_val(st, src.t)
        dm, vm = self.map_dom(st, m.t), self.map_val(st, m.t)
        # fresh arrays defined pointwise, with the obvious triggers (more robust than lambda terms)
        nd = fresh(z3.ArraySort(IntS, BoolS), 'upd_dom')
        nv = fresh(z3.ArraySort(IntS, IntS), 'upd_val')
        st.assume(z3.ForAll([k], z3.Select(nd, k) == z3.Or(z3.Select(dm, k), z3.Select(ds, k)),
                            patterns=[z3.Select(nd, k)]))
        st.assume(z3.ForAll([k], z3.Select(nv, k) == z3.If(z3.Select(ds, k), z3.Select(vs, k), z3.Select(vm, k)),
                            patterns=[z3.Select(nv, k)]))
        self.map_write(st, m.t, nd, nv)

    def as_map(self, st, v, node=None):
        if isinstance(v, VMap):
            return v
        if isinstance(v, VAny):
            self.note('configuration data: a value used as a mapping is assumed to be a dict')
            return VMap(v.t)
        if isinstance(v, VConst) and v.py == {}:
            return VMap(self.EMPTY_MAP)
        return None

    # ---------------------------------------------------------------- typing
    def assume_type(self, st, T, v, guard=TRUE):
        "type invariants of a value read from the heap / received from outside"
        k = T[0]
        if isinstance(v, VU):
            for c, a in v.alts:
                for t in (T[1] if k == 'union' else (T,)):
                    if conforms(a, t) and not isinstance(a, VU):
                        self.assume_type(st, t, a, AND(guard, c))
                        break
            return
        if k == 'union':
            for t in T[1]:
                if conforms(v, t):
                    self.assume_type(st, t, v, guard)
                    return
            return
        if k == 'char' and isinstance(v, VCh):
            st.assume(IMPL(guard, v.t >= 0))
        elif k == 'echar' and isinstance(v, VCh):
            st.assume(IMPL(guard, v.t >= -1))
        elif k == 'str' and isinstance(v, VStr) and v.lit is None:
            st.assume(IMPL(guard, AND(v.off >= 0, v.ln >= 0)))
        elif k == 'ref' and isinstance(v, VRef):
            st.assume(IMPL(guard, AND(v.t >= 1, v.t < st.alloc, self.class_is(st, v.t, T[1]))))
        elif k == 'rec' and isinstance(v, VRec):
            st.assume(IMPL(guard, AND(v.t >= 1, v.t < st.alloc)))
        elif k == 'map' and isinstance(v, VMap):
            st.assume(IMPL(guard, AND(v.t >= 1, v.t < st.alloc)))
        elif k == 'list' and isinstance(v, VList):
            st.assume(IMPL(guard, AND(v.t >= 1, v.t < st.alloc, self.list_len(st, v) >= 0,
                                      z3.Select(self.harr(st, LIST_ETYPE, IntS), v.t) == etype_id(v.elem))))
        elif k == 'tuple' and isinstance(v, VTuple):
            for a, t in zip(v.items, T[1]):
                self.assume_type(st, t, a, guard)

    def unflatten(self, st, T, terms, assume=True):
        v = self._unflatten(st, T, list(terms))
        if assume:
            self.assume_type(st, T, v)
        return v

    def _unflatten(self, st, T, terms):
        k = T[0]
        if k == 'int':
            return VInt(terms[0])
        if k == 'bool':
            return VBool(terms[0])
        if k == 'float':
            return VFloat(terms[0])
        if k == 'none':
            return NONE
        if k in ('char', 'echar'):
            return VCh(terms[0])
        if k == 'str':
            return VStr(terms[0], terms[1], terms[2])
        if k == 'ref':
            return VRef(T[1], terms[0])
        if k == 'list':
            return VList(T[1], terms[0])
        if k == 'rec':
            return VRec(T[1], terms[0])
        if k == 'any':
            return VAny(terms[0])
        if k == 'map':
            return VMap(terms[0])
        if k == 'pred':
            return VFn(('pred', terms[0]))
        if k == 'fn':
            return VFn(('opaque', terms[0]))
        if k == 'enum':
            idx = terms[0]
            st.assume(AND(idx >= 0, idx < len(T[1])))
            return mk_union([(idx == i, VStr(lit=c)) for i, c in enumerate(T[1])])
        if k == 'tuple':
            items = []
            p = 0
            for t in T[1]:
                n = len(slots(t))
                items.append(self._unflatten(st, t, terms[p:p + n]))
                p += n
            return VTuple(items)
        if k == 'union':
            tag = terms[0]
            st.assume(AND(tag >= 0, tag < len(T[1])))
            alts = []
            p = 1
            for i, t in enumerate(T[1]):
                n = len(slots(t))
                alts.append((tag == i, self._unflatten(st, t, terms[p:p + n])))
                p += n
            return mk_union(alts) if len(alts) > 1 else alts[0][1]
        raise Unsupported('unflatten %r' % (T,))

    def flatten(self, st, T, v):
        "v must already be coerced to T"
        k = T[0]
        if isinstance(v, VU) and k != 'union' and k != 'enum':
            parts = [(c, self.flatten(st, T, a)) for c, a in v.alts]
            out = list(parts[-1][1])
            for c, ts in reversed(parts[:-1]):
                out = [ITE(c, a, b) for a, b in zip(ts, out)]
            return out
        if k in ('int',):
            if isinstance(v, VBool):
                return [ITE(v.t, z3.IntVal(1), z3.IntVal(0))]
            return [v.t]
        if k == 'float':
            if isinstance(v, VInt):
                return [z3.ToReal(v.t)]
            return [v.t]
        if k in ('bool', 'char', 'echar', 'ref', 'list', 'rec', 'map'):
            return [v.t]
        if k == 'none':
            return []
        if k == 'any':
            if isinstance(v, VAny):
                return [v.t]
            if isinstance(v, (VRef, VList, VRec, VMap)):
                return [v.t]
            if isinstance(v, VStr):
                return [self.key_term(v)]
            if isinstance(v, (VInt, VBool)):
                return [self.neg(z3.Function('IntKey', IntS, IntS)(self.num(v)))]
            if isinstance(v, VNone):
                return [z3.IntVal(-7)]
            return [fresh_int('any')]
        if k in ('pred', 'fn'):
            return [fresh_int('fnid')]
        if k == 'str':
            a, o, n = str_parts(v)
            return [a, o, n]
        if k == 'enum':
            alts = v.alts if isinstance(v, VU) else [(TRUE, v)]
            t = z3.IntVal(T[1].index(alts[-1][1].lit))
            for c, a in reversed(alts[:-1]):
                t = ITE(c, z3.IntVal(T[1].index(a.lit)), t)
            return [t]
        if k == 'tuple':
            out = []
            for a, t in zip(v.items, T[1]):
                out.extend(self.flatten(st, t, a))
            return out
        if k == 'union':
            alts = v.alts if isinstance(v, VU) else [(TRUE, v)]
            total = slots(T)
            rows = []
            for c, a in alts:
                row = [default_term(s) for s in total]
                p = 1
                done = False
                for i, t in enumerate(T[1]):
                    n = len(slots(t))
                    if not done and conforms(a, t):
                        row[0] = z3.IntVal(i)
                        row[p:p + n] = self.flatten(st, t, a)
                        done = True
                    p += n
                if not done:
                    raise TypeMismatch('%r does not fit %s' % (a, type_str(T)))
                rows.append((c, row))
            out = list(rows[-1][1])
            for c, row in reversed(rows[:-1]):
                out = [ITE(c, a, b) for a, b in zip(row, out)]
            return out
        raise Unsupported('flatten %r' % (T,))

    def coerce(self, st, v, T, node, why):
        """make v conform to T (kind conversion char<->str, bool->int); a non-conforming
        alternative is a `type` obligation: its guard must be unreachable"""
        k = T[0]
        if isinstance(v, VU):
            alts = []
            for c, a in v.alts:
                if not self._fits(a, T):
                    sub = st if st.spec else st
                    self.prove(st, NOT(c), 'type', node, '%s: value of kind %s is not %s' % (why, a.kind, type_str(T)))
                    continue
                alts.append((c, self.coerce(st, a, T, node, why)))
            if not alts:
                raise PathDead()
            return mk_union(alts)
        if k == 'rec' and isinstance(v, VConst) and isinstance(v.py, dict):
            try:
                return self.const_to_rec(st, v.py, T[1], node)
            except TypeMismatch as e:
                self.prove(st, FALSE, 'type', node, '%s: %s' % (why, e))
                raise PathDead()
        if k == 'rec' and isinstance(v, VRec) and v.name != T[1] and T[1] in REG.rec_optional:
            new = self.new_rec(st, T[1], {}, node)
            self.rec_update(st, new, v, node)
            return new
        if not self._fits(v, T):
            self.prove(st, FALSE, 'type', node, '%s: value of kind %s is not %s' % (why, v.kind, type_str(T)))
            raise PathDead()
        if k == 'union':
            for t in T[1]:
                if self._fits(v, t):
                    return self.coerce(st, v, t, node, why)
        if k == 'int' and isinstance(v, VBool):
            return VInt(ITE(v.t, z3.IntVal(1), z3.IntVal(0)))
        if k == 'float' and isinstance(v, VInt):
            return VFloat(z3.ToReal(v.t))
        if k in ('char', 'echar'):
            if isinstance(v, VStr):
                if v.lit is not None:
                    return VCh(ord(v.lit) if v.lit else -1)
                if k == 'char':
                    self.prove(st, v.ln == 1, 'type', node, why + ': string of length 1 expected')
                    return VCh(z3.Select(v.arr, v.off))
                self.prove(st, v.ln <= 1, 'type', node, why + ': string of length <= 1 expected')
                return VCh(ITE(v.ln == 0, z3.IntVal(-1), z3.Select(v.arr, v.off)))
            if k == 'char':
                self.prove(st, v.t >= 0, 'type', node, why + ': non-empty character expected')
            return v
        if k == 'str' and isinstance(v, VCh):
            return self.ch_to_str(v)
        if k == 'ref' and isinstance(v, VRef):
            if not REG.is_subclass(v.cls, T[1]):
                self.prove(st, self.class_is(st, v.t, T[1]), 'type', node, why + ': instance of %s expected' % T[1])
                return VRef(T[1], v.t)
            return v
        if k == 'tuple':
            return VTuple([self.coerce(st, a, t, node, why) for a, t in zip(v.items, T[1])])
        if k == 'any' and not isinstance(v, VAny):
            return VAny(self.flatten(st, ('any',), v)[0])
        if k == 'map':
            if isinstance(v, VAny):
                self.note('configuration data: a value used as a mapping is assumed to be a dict')
                return VMap(v.t)
            if isinstance(v, VConst):
                return self.new_map(st)
        return v

    def _fits(self, v, T):
        return conforms(v, T)

    def ch_to_str(self, v):
        arr = z3.Store(z3.K(IntS, z3.IntVal(0)), 0, v.t)
        return VStr(arr, z3.IntVal(0), ITE(v.t >= 0, z3.IntVal(1), z3.IntVal(0)))

    def make_fresh(self, st, T, base='x'):
        terms = [fresh(s, base) for s in slots(T)]
        return self.unflatten(st, T, terms)

    # ------------------------------------------------------------ value semantics
    def truthy(self, st, v):
        if isinstance(v, VBool):
            return v.t
        if isinstance(v, VInt):
            return v.t != 0
        if isinstance(v, VFloat):
            return v.t != 0
        if isinstance(v, VNone):
            return FALSE
        if isinstance(v, VCh):
            return v.t >= 0
        if isinstance(v, VStr):
            if v.lit is not None:
                return z3.BoolVal(len(v.lit) > 0)
            return v.ln > 0
        if isinstance(v, (VRef, VFn, VClass, VModule)):
            return TRUE
        if isinstance(v, VRec):
            return TRUE
        if isinstance(v, VMap):
            k = fresh_int('qk')
            return z3.Exists([k], z3.Select(self.map_dom(st, v.t), k))
        if isinstance(v, VList):
            return self.list_len(st, v) > 0
        if isinstance(v, VTuple):
            return z3.BoolVal(len(v.items) > 0)
        if isinstance(v, VU):
            return OR(*[AND(c, self.truthy(st, a)) for c, a in v.alts])
        if isinstance(v, VAny):
            return z3.Function('truthy_any', IntS, BoolS)(v.t)
        raise Unsupported('truthiness of %r' % (v,))

    def eq(self, st, a, b, node=None):
        "Python == as a z3 Bool"
        if isinstance(a, VU):
            return OR(*[AND(c, self.eq(st, x, b, node)) for c, x in a.alts])
        if isinstance(b, VU):
            return OR(*[AND(c, self.eq(st, a, x, node)) for c, x in b.alts])
        if isinstance(a, VBool) and isinstance(b, VBool):
            return a.t == b.t
        num = (VInt, VBool, VFloat)
        if isinstance(a, num) and isinstance(b, num):
            return self.num(a) == self.num(b)
        if isinstance(a, VNone) or isinstance(b, VNone):
            return z3.BoolVal(isinstance(a, VNone) and isinstance(b, VNone))
        if isinstance(a, VCh) and isinstance(b, VCh):
            return a.t == b.t
        if isinstance(a, VCh) and isinstance(b, VStr):
            return self.eq_ch_str(a, b)
        if isinstance(a, VStr) and isinstance(b, VCh):
            return self.eq_ch_str(b, a)
        if isinstance(a, VStr) and isinstance(b, VStr):
            return self.eq_str(a, b)
        if isinstance(a, VRef) and isinstance(b, VRef):
            return a.t == b.t
        if isinstance(a, VList) and isinstance(b, VList):
            if a.t.eq(b.t):
                return TRUE
            raise Unsupported('list equality', node)
        if isinstance(a, VRec) and isinstance(b, VRec):
            raise Unsupported('dict equality', node)
        if isinstance(a, VTuple) and isinstance(b, VTuple):
            if len(a.items) != len(b.items):
                return FALSE
            return AND(*[self.eq(st, x, y, node) for x, y in zip(a.items, b.items)])
        if isinstance(a, VAny) and isinstance(b, VAny):
            return TRUE if a.t.eq(b.t) else z3.Function('any_eq_any', IntS, IntS, BoolS)(a.t, b.t)
        if isinstance(a, VAny) or isinstance(b, VAny):
            x, y = (a, b) if isinstance(a, VAny) else (b, a)
            # an opaque value compared with a literal: an uninterpreted but *deterministic* test
            if isinstance(y, VStr) and y.lit is not None:
                # equal if it IS that literal (stored earlier), otherwise an uninterpreted deterministic test
                return OR(x.t == self.lit_key(y.lit),
                          z3.Function('any_eq_str_%s' % ''.join('%02x' % ord(c) for c in y.lit[:12]), IntS, BoolS)(x.t))
            if isinstance(y, (VInt, VBool)):
                return z3.Function('any_eq_int', IntS, IntS, BoolS)(x.t, self.num(y))
            return fresh_bool('eqany')
        if isinstance(a, VFn) or isinstance(b, VFn):
            if isinstance(a, VFn) and isinstance(b, VFn):
                raise Unsupported('function equality', node)
            return FALSE
        # different kinds
        return FALSE

    def num(self, v):
        if isinstance(v, VBool):
            return ITE(v.t, z3.IntVal(1), z3.IntVal(0))
        return v.t

    def eq_ch_str(self, c, s):
        if s.lit is not None:
            if len(s.lit) == 0:
                return c.t == -1
            if len(s.lit) == 1:
                return c.t == ord(s.lit)
            return FALSE
        return OR(AND(s.ln == 0, c.t == -1), AND(s.ln == 1, c.t >= 0, z3.Select(s.arr, s.off) == c.t))

    def eq_str(self, a, b):
        if a.lit is not None and b.lit is not None:
            return z3.BoolVal(a.lit == b.lit)
        if a.lit is not None:
            a, b = b, a
        if b.lit is not None:
            return AND(a.ln == len(b.lit), *[z3.Select(a.arr, a.off + i) == ord(ch) for i, ch in enumerate(b.lit)])
        if a.arr.eq(b.arr) and a.off.eq(b.off) and a.ln.eq(b.ln):
            return TRUE
        # quantified over absolute positions of a's array (and, redundantly, of b's): the trigger
        # Select(arr, k) then matches a character term whatever arithmetic its index carries
        k = fresh_int('qi')
        k2 = fresh_int('qi')
        qa = forall_trig([k], z3.Implies(z3.And(k >= a.off, k < a.off + a.ln),
                                         z3.Select(a.arr, k) == z3.Select(b.arr, simp(b.off + k - a.off))),
                         z3.Select(a.arr, k))
        if a.arr.eq(b.arr):
            return AND(a.ln == b.ln, qa)
        qb = forall_trig([k2], z3.Implies(z3.And(k2 >= b.off, k2 < b.off + b.ln),
                                          z3.Select(b.arr, k2) == z3.Select(a.arr, simp(a.off + k2 - b.off))),
                         z3.Select(b.arr, k2))
        return AND(a.ln == b.ln, qa, qb)

    # slices
    def clamp_index(self, i, n):
        return ITE(i < 0, ITE(i + n < 0, z3.IntVal(0), i + n), ITE(i > n, n, i))

    def slice_bounds(self, st, lo, hi, n):
        "lo/hi: VInt | VNone  -> (start, length) terms after Python clamping"
        s = z3.IntVal(0) if isinstance(lo, VNone) else self.clamp_index(lo.t, n)
        e = n if isinstance(hi, VNone) else self.clamp_index(hi.t, n)
        ln = ITE(e - s < 0, z3.IntVal(0), e - s)
        return simp(s), simp(ln)
