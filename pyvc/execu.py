"""pyvc.execu -- expressions, statements, calls, loops (the symbolic executor proper)."""
import ast
import z3

from . import loader, smt
from .values import *
from .state import *
from .engine import Engine, MAX_INLINE_DEPTH, MAX_PATHS, LIST_LEN
from .contracts import REG, parse_type, type_str

BUILTINS = {'len', 'ord', 'chr', 'int', 'float', 'str', 'callable', 'isinstance', 'max', 'min',
            'range', 'enumerate', 'list', 'tuple', 'dict', 'bool', 'abs', 'super', 'Exception',
            'set', 'sorted', 'reversed', 'filter', 'map', 'zip', 'any', 'all', 'repr', 'print',
            'IndexError', 'ValueError', 'TypeError', 'KeyError'}
SPEC_FORMS = {'old', 'forall', 'exists', 'implies', 'holds', 'fresh', 'iff', 'ite', 'kind_is',
              'same_str', 'allocated', 'unchanged', 'owned', 'chars_hold', 'occurs_at', 'numshape',
              'has', 'at', 'mget', 'forall_keys', 'same', 'total_len', 'int_str', 'uf_real', 'keyis'}

LIST_MUTATORS = {'append', 'pop', 'clear', 'insert', 'extend', 'sort', 'reverse', 'remove'}


def from_py(x):
    if isinstance(x, bool):
        return VBool(x)
    if isinstance(x, int):
        return VInt(x)
    if isinstance(x, float):
        return VFloat(x)
    if x is None:
        return NONE
    if isinstance(x, str):
        return VStr(lit=x)
    if isinstance(x, tuple):
        return VTuple([from_py(i) for i in x])
    if isinstance(x, (list, dict, set, frozenset)):
        return VConst(x)
    raise Unsupported('python constant %r' % (x,))


class Exec(Engine):

    # ------------------------------------------------------------ plumbing
    def bind(self, outs, f):
        res = []
        for st, v in outs:
            try:
                res.extend(f(st, v))
            except PathDead:
                pass
        return res

    def ev_list(self, nodes, st):
        outs = [(st, [])]
        for n in nodes:
            nxt = []
            for s, acc in outs:
                try:
                    for s2, v in self.ev(n, s):
                        nxt.append((s2, acc + [v]))
                except PathDead:
                    pass
            outs = nxt
        return outs

    def force(self, st, v):
        "split a guarded union by forking the path"
        if not isinstance(v, VU):
            return [(st, v)]
        outs = []
        for c, a in v.alts:
            s2 = st.fork()
            s2.assume(c)
            if st.spec or self.feasible(s2):
                outs.append((s2, a))
        return outs

    def umap(self, st, v, f, node=None):
        """apply f(st, alt) to every alternative.  spec mode: guarded union of the results
        (alternatives on which f is undefined are skipped); code mode: fork."""
        if not isinstance(v, VU):
            return f(st, v)
        if st.spec:
            alts = []
            for c, a in v.alts:
                try:
                    r = f(st, a)
                except (Unsupported, PathDead, TypeMismatch):
                    continue
                if len(r) != 1:
                    raise Unsupported('spec expression forks', node)
                alts.append((c, r[0][1]))
            if not alts:
                raise Unsupported('spec expression undefined on every alternative', node)
            return [(st, mk_union(alts))]
        res = []
        for s2, a in self.force(st, v):
            try:
                res.extend(f(s2, a))
            except PathDead:
                pass
        return res

    # ------------------------------------------------------------ names
    def lookup(self, st, name, node=None):
        if st.spec and name == 'result' and st.result is not None:
            # in a postcondition `result` is the return value, even if the function has a local of that name
            return st.result
        fi = len(st.frames) - 1
        while fi is not None and fi >= 0:
            fr = st.frames[fi]
            if name in fr.loc:
                v = fr.loc[name]
                if v is None:
                    raise Unsupported('read of local %r whose type is unknown after a loop havoc '
                                      '(declare it in contract.locals)' % name, node)
                return v
            fi = fr.parent
        if st.spec:
            if name == 'result':
                if st.result is None:
                    raise Unsupported('`result` used outside a postcondition', node)
                return st.result
            if name in REG.defs or name in SPEC_FORMS:
                return VFn(('spec', name))
        module = st.frame.module
        r = loader.resolve(module, name)
        if r is not None and r[0] in ('const', 'constnode'):
            g = self.global_object(st, module, name, r)
            if g is not None:
                return g
        if r is not None:
            return self.from_resolved(r, node)
        if name in BUILTINS:
            return VFn(('builtin', name))
        if st.spec:
            # contract vocabulary: the character predicates of scanner_utils are visible in every clause
            r = loader.resolve(loader.load('emmet.scanner_utils'), name)
            if r is not None and r[0] == 'func':
                return self.from_resolved(r, node)
        if name == 'True':
            return VBool(True)
        raise Unsupported('unbound name %r' % name, node)

    def global_object(self, st, module, name, r):
        "module-level tables declared with glob(): opaque global objects (never modified: frame obligations)"
        # find the defining module of the name
        m = module
        for _ in range(8):
            if name in m.consts or name in m.const_nodes:
                break
            imp = m.imports.get(name)
            if imp is None or imp[0] != 'name':
                return None
            m = loader.load(imp[1])
            name = imp[2]
        key = '%s:%s' % (m.name, name)
        T = REG.globs.get(key)
        if T is None:
            return None
        T = parse_type(T)
        t = z3.Int('G.' + key)
        if T[0] == 'map':
            return VMap(t)
        if T[0] == 'any':
            return VAny(t)
        if T[0] == 'list':
            return VList(T[1], t)
        if T[0] == 'ref':
            return VRef(T[1], t)      # a module-level instance (e.g. a shared sentinel token)
        raise Unsupported('global %s of type %s' % (key, T))

    def from_resolved(self, r, node=None):
        if r[0] == 'func':
            return VFn(('repo', r[1]))
        if r[0] == 'class':
            return VClass(r[1], r[2])
        if r[0] == 'const':
            return from_py(r[1])
        if r[0] == 'constnode':
            return from_py(self.const_eval(r[1], r[2]))
        if r[0] == 'mod':
            return VModule(r[1])
        raise Unsupported('resolve %r' % (r,), node)

    def const_eval(self, module, node):
        "concrete evaluation of a module-level initialiser built from constants"
        if isinstance(node, ast.Constant):
            return node.value
        if isinstance(node, ast.Dict):
            return {self.const_eval(module, k): self.const_eval(module, v) for k, v in zip(node.keys, node.values)}
        if isinstance(node, (ast.List, ast.Tuple, ast.Set)):
            vals = [self.const_eval(module, e) for e in node.elts]
            return tuple(vals) if isinstance(node, ast.Tuple) else (set(vals) if isinstance(node, ast.Set) else vals)
        if isinstance(node, ast.Name):
            r = loader.resolve(module, node.id)
            if r and r[0] == 'const':
                return r[1]
            if r and r[0] == 'constnode':
                return self.const_eval(r[1], r[2])
            if node.id == 'None':
                return None
        if isinstance(node, ast.Attribute) and isinstance(node.value, ast.Name):
            r = loader.resolve(module, node.value.id)
            if r and r[0] == 'class':
                ci = loader.find_class(r[1], r[2])
                if ci and node.attr in ci.consts:
                    return ci.consts[node.attr]
        if isinstance(node, ast.Call) and isinstance(node.func, ast.Name) and node.func.id == 'chr' and len(node.args) == 1:
            return chr(self.const_eval(module, node.args[0]))
        if isinstance(node, ast.Call) and isinstance(node.func, ast.Name) and node.func.id == 'dict' and \
                len(node.args) == 1 and not node.keywords:
            return dict(self.const_eval(module, node.args[0]))
        if isinstance(node, ast.UnaryOp) and isinstance(node.op, ast.USub):
            return -self.const_eval(module, node.operand)
        raise Unsupported('module-level initialiser is not constant: %s' % ast.unparse(node), node)

    def assign_name(self, st, name, v):
        # Python scoping: assignment always binds in the current frame (no nonlocal in this code base)
        st.frame.loc[name] = v
        st.lver += 1

    # ------------------------------------------------------------ expressions
    def ev(self, node, st):
        m = getattr(self, 'ev_' + type(node).__name__, None)
        if m is None:
            raise Unsupported('expression %s' % type(node).__name__, node)
        return m(node, st)

    def ev1(self, node, st):
        "spec-mode evaluation: exactly one outcome"
        outs = self.ev(node, st)
        if len(outs) != 1:
            raise Unsupported('spec expression forks: %s' % ast.unparse(node), node)
        return outs[0][1]

    def ev_Constant(self, node, st):
        return [(st, from_py(node.value))]

    def ev_Name(self, node, st):
        return [(st, self.lookup(st, node.id, node))]

    def ev_Tuple(self, node, st):
        return [(s, VTuple(vs)) for s, vs in self.ev_list(node.elts, st)]

    def ev_List(self, node, st):
        res = []
        for s, vs in self.ev_list(node.elts, st):
            elem = self.infer_elem(s, vs, node)
            res.append((s, self.new_list(s, elem, vs, node)))
        return res

    def infer_elem(self, st, vs, node):
        T = getattr(node, '_pyvc_elem', None)
        if T is not None:
            return T
        c = REG.fns.get(st.frame.fnkey)
        if c is not None and c.list_literals:
            # declared in the contract; every element is coerced to it (a `type` obligation when it does not fit)
            return parse_type(c.list_literals)
        if not vs:
            return ('any',)
        v = vs[0]
        k = {VInt: ('int',), VBool: ('bool',), VCh: ('echar',), VStr: ('str',)}.get(type(v))
        if k and all(type(x) is type(v) for x in vs):
            return k
        if all(isinstance(x, VTuple) and len(x.items) == len(v.items) and all(isinstance(y, VInt) for y in x.items)
               for x in vs):
            # [(a, b), ...]: a list of integer tuples (ranges)
            return ('tuple', tuple(('int',) for _ in v.items))
        return ('any',)

    def ev_Dict(self, node, st):
        if getattr(node, '_pyvc_map', False) and not node.keys:
            return [(st, self.new_map(st))]
        T = getattr(node, '_pyvc_rec', None)
        if T is None:
            # an undeclared dict literal: a general map
            if any(k is None for k in node.keys):
                raise Unsupported('dict literal with ** unpacking', node)
            res = []
            for s, vs in self.ev_list(list(node.keys) + list(node.values), st):
                n = len(node.keys)
                m = self.new_map(s)
                for k, v in zip(vs[:n], vs[n:]):
                    self.map_store(s, m, k, v, node)
                res.append((s, m))
            return res
        keys = []
        for k in node.keys:
            if not (isinstance(k, ast.Constant) and isinstance(k.value, str)):
                raise Unsupported('dict literal with non-literal key', node)
            keys.append(k.value)
        res = []
        for s, vs in self.ev_list(node.values, st):
            res.append((s, self.new_rec(s, T, dict(zip(keys, vs)), node)))
        return res

    def ev_Lambda(self, node, st):
        return [(st, VFn(('lambda', node, len(st.frames) - 1)))]

    # -- attribute
    def ev_Attribute(self, node, st):
        # x.__class__.__name__
        if node.attr == '__name__' and isinstance(node.value, ast.Attribute) and node.value.attr == '__class__':
            return self.bind(self.ev(node.value.value, st), lambda s, v: self.class_name_of(s, v, node))
        return self.bind(self.ev(node.value, st),
                         lambda s, v: self.umap(s, v, lambda s2, a: self.attr(s2, a, node.attr, node), node))

    def class_name_of(self, st, v, node):
        def one(s, a):
            if not isinstance(a, VRef):
                raise Unsupported('__class__ of non-object', node)
            subs = REG.subclasses(a.cls)
            d = self.dyn_class(s, a.t)
            return [(s, mk_union([(d == REG.class_ids[c], VStr(lit=REG.classes[c].real)) for c in subs]))]
        return self.umap(st, v, one, node)

    def find_method(self, clsname, name):
        "-> key of the real method by walking the real class hierarchy"
        cc = REG.classes.get(clsname)
        seen = set()
        todo = [(cc.module, cc.real)] if cc else []
        while todo:
            mod, cn = todo.pop(0)
            if (mod, cn) in seen:
                continue
            seen.add((mod, cn))
            ci = loader.find_class(mod, cn)
            if ci is None:
                continue
            if name in ci.methods:
                return '%s:%s.%s' % (mod, cn, name), ci
            m = loader.load(mod)
            for b in ci.bases:
                r = loader.resolve(m, b)
                if r and r[0] == 'class':
                    todo.append((r[1], r[2]))
        return None, None

    def attr(self, st, v, name, node):
        if isinstance(v, VRef):
            if REG.field_decl(v.cls, name) is not None:
                return [(st, self.load_field(st, v, name, node))]
            key, ci = self.find_method(v.cls, name)
            if key is not None:
                if name in ci.properties:
                    return self.call_repo(st, key, [v], {}, node)
                return [(st, VFn(('bound', v, key)))]
            # a field of a subclass read through a reference of the base class (after an isinstance test):
            # the dynamic class must be one that has the field (AttributeError otherwise)
            subs = [c for c in REG.subclasses(v.cls) if c != v.cls and name in REG.classes[c].fields]
            if subs:
                tests = [self.class_is(st, v.t, c) for c in subs]
                self.prove(st, OR(*tests), 'aorte', node,
                           'AttributeError: %s has no attribute %s unless it is a %s' % (v.cls, name, ' / '.join(subs)))
                alts = [(t, self.load_field(st, VRef(c, v.t), name, node)) for t, c in zip(tests, subs)]
                if len(alts) == 1:
                    return [(st, alts[0][1])]
                return [(st, mk_union(alts))]
            raise Unsupported('attribute %s.%s is neither a declared field nor a method' % (v.cls, name), node)
        if isinstance(v, VNone):
            self.prove(st, FALSE, 'aorte', node, "AttributeError: 'NoneType' object has no attribute %r" % name)
            raise PathDead()
        if isinstance(v, VClass):
            ci = loader.find_class(v.module, v.name)
            if ci and name in ci.consts:
                return [(st, from_py(ci.consts[name]))]
            if ci and name in ci.methods:
                return [(st, VFn(('repo', '%s:%s.%s' % (v.module, v.name, name))))]
            raise Unsupported('class attribute %s.%s' % (v.name, name), node)
        if isinstance(v, VModule):
            if v.name in ('re', 'math', 'random', 'collections'):
                return [(st, VFn(('external', '%s.%s' % (v.name, name))))]
            r = loader.resolve(loader.load(v.name), name)
            if r is None:
                raise Unsupported('module attribute %s.%s' % (v.name, name), node)
            return [(st, self.from_resolved(r, node))]
        if isinstance(v, (VStr, VCh)):
            return [(st, VFn(('strmethod', v, name)))]
        if isinstance(v, VList):
            if name not in ('append', 'pop', 'clear', 'insert', 'extend', 'sort', 'reverse', 'remove', 'copy',
                            'index', 'count'):
                self.prove(st, FALSE, 'aorte', node, "AttributeError: 'list' object has no attribute %r" % name)
                raise PathDead()
            return [(st, VFn(('listmethod', v, name)))]
        if isinstance(v, (VRec, VConst)):
            return [(st, VFn(('dictmethod', v, name)))]
        if isinstance(v, (VMap, VAny)):
            if name in ('get', 'update', 'keys', 'values', 'items', 'copy', 'pop', 'setdefault'):
                return [(st, VFn(('dictmethod', v, name)))]
            if isinstance(v, VAny) and name == 'split':
                return [(st, VFn(('external', 'regex.split')))]
            if isinstance(v, VAny) and name in ('lower', 'upper', 'strip'):
                # an opaque value used as a string: deterministic opaque result
                return [(st, VFn(('anystr', v, name)))]
            if isinstance(v, VAny):
                # an opaque object: its attribute is an opaque, deterministic value (assumption: the object has
                # the attributes the code reads; listed in the evidence)
                self.note('opaque objects are assumed to have the attributes the code reads from them')
                return [(st, VAny(z3.Function('attr_%s' % name, IntS, IntS)(v.t)))]
            if st.spec:
                return [(st, VAny())]
            raise Unsupported('attribute %r of an opaque value' % name, node)
        raise Unsupported('attribute %r of %s' % (name, v.kind), node)

    # -- subscript
    def ev_Subscript(self, node, st):
        sl = node.slice
        if isinstance(sl, ast.Slice):
            parts = [sl.lower or ast.Constant(None), sl.upper or ast.Constant(None)]
            if sl.step is not None:
                raise Unsupported('slice step', node)

            def after(s, vs):
                base, lo, hi = vs
                return self.umap(s, base, lambda s2, b: self.slice(s2, b, lo, hi, node), node)
            return self.bind(self.ev_list([node.value] + parts, st), after)

        def after(s, vs):
            base, idx = vs
            return self.umap(s, base, lambda s2, b: self.umap(s2, idx, lambda s3, i: self.index(s3, b, i, node), node), node)
        return self.bind(self.ev_list([node.value, sl], st), after)

    def norm_index(self, st, i, n, node, what):
        "Python index normalisation + IndexError obligation"
        if i.get_id() in st.nonneg:
            idx = i         # a quantified index that ranges over [literal >= 0, hi): no negative wrap-around
        else:
            idx = ITE(i < 0, i + n, i)
        self.prove(st, AND(idx >= 0, idx < n), 'aorte', node, 'IndexError: %s' % what)
        return simp(idx)

    def index(self, st, b, i, node):
        src = ast.unparse(node)
        if isinstance(b, VStr):
            if not isinstance(i, (VInt, VBool)):
                raise Unsupported('string index of kind ' + i.kind, node)
            n = str_len(b)
            idx = self.norm_index(st, self.num(i), n, node, src)
            code = str_at(b, idx)
            # strings consist of code points: every in-range element is >= 0
            st.assume(IMPL(AND(idx >= 0, idx < n), code >= 0))
            return [(st, VCh(code))]
        if isinstance(b, VCh):
            idx = self.norm_index(st, self.num(i), ITE(b.t >= 0, z3.IntVal(1), z3.IntVal(0)), node, src)
            return [(st, VCh(b.t))]
        if isinstance(b, VList):
            if not isinstance(i, (VInt, VBool)):
                raise Unsupported('list index of kind ' + i.kind, node)
            idx = self.norm_index(st, self.num(i), self.list_len(st, b), node, src)
            return [(st, self.list_get(st, b, idx))]
        if isinstance(b, VTuple):
            if isinstance(i, VInt) and z3.is_int_value(simp(i.t)):
                k = simp(i.t).as_long()
                if not -len(b.items) <= k < len(b.items):
                    self.prove(st, FALSE, 'aorte', node, 'IndexError: ' + src)
                    raise PathDead()
                return [(st, b.items[k])]
            n = len(b.items)
            idx = self.norm_index(st, self.num(i), z3.IntVal(n), node, src)
            return [(st, mk_union([(idx == k, b.items[k]) for k in range(n)]))]
        if isinstance(b, VRec):
            return self.umap(st, i, lambda s, k: self.rec_index(s, b, k, node), node)
        if isinstance(b, VConst):
            return self.const_index(st, b, i, node)
        if isinstance(b, VNone):
            self.prove(st, FALSE, 'aorte', node, "TypeError: 'NoneType' object is not subscriptable: " + src)
            raise PathDead()
        if isinstance(b, (VMap, VAny)):
            m = self.as_map(st, b, node)
            return self.umap(st, i, lambda s, k: self.map_index(s, m, k, node), node)
        raise Unsupported('subscript of %s' % b.kind, node)

    def map_index(self, st, m, k, node):
        self.prove(st, self.map_has(st, m, k), 'aorte', node, 'KeyError: ' + ast.unparse(node))
        return [(st, self.map_at(st, m, k))]

    def rec_index(self, st, b, k, node):
        if isinstance(k, VStr) and k.lit is not None:
            return [(st, self.rec_load(st, b, k.lit, node))]
        raise Unsupported('record subscript with a non-literal key', node)

    def const_index(self, st, b, i, node):
        py = b.py
        if isinstance(py, dict):
            alts = []
            for k, v in py.items():
                alts.append((self.eq(st, i, from_py(k)), from_py(v)))
            self.prove(st, OR(*[c for c, _ in alts]), 'aorte', node, 'KeyError: ' + ast.unparse(node))
            return [(st, mk_union(alts))]
        if isinstance(py, (list, tuple)):
            n = len(py)
            idx = self.norm_index(st, self.num(i), z3.IntVal(n), node, ast.unparse(node))
            return [(st, mk_union([(idx == k, from_py(py[k])) for k in range(n)]))]
        raise Unsupported('subscript of constant %r' % type(py), node)

    def slice(self, st, b, lo, hi, node):
        for x in (lo, hi):
            if isinstance(x, VU):
                res = []
                for s2, a in self.force(st, x) if not st.spec else []:
                    res.extend(self.slice(s2, b, a if x is lo else lo, a if x is hi else hi, node))
                if st.spec:
                    raise Unsupported('optional slice bound in spec', node)
                return res
            if not isinstance(x, (VInt, VNone, VBool)):
                raise Unsupported('slice bound of kind ' + x.kind, node)
        lo = VInt(self.num(lo)) if isinstance(lo, VBool) else lo
        hi = VInt(self.num(hi)) if isinstance(hi, VBool) else hi
        if isinstance(b, VCh):
            b = self.ch_to_str(b)
        if isinstance(b, VStr):
            arr, off, n = str_parts(b)
            if isinstance(lo, VInt) and isinstance(hi, VInt) and not st.spec:
                # bounds provably inside the string: no clamping terms (keeps later queries simple)
                inside = AND(lo.t >= 0, lo.t <= hi.t, hi.t <= n)
                v, _, _, _ = smt.decide(list(st.pc) + self.base_axioms() + [NOT(inside)], want_model=False, ext=False)
                if v == 'unsat':
                    return [(st, VStr(arr, simp(off + lo.t), simp(hi.t - lo.t)))]
            s, ln = self.slice_bounds(st, lo, hi, n)
            return [(st, VStr(arr, simp(off + s), ln))]
        if isinstance(b, VList):
            n = self.list_len(st, b)
            s, ln = self.slice_bounds(st, lo, hi, n)
            new = VList(b.elem, st.alloc)
            st.alloc = simp(st.alloc + 1)
            self.tag_list(st, new)
            self.list_set_len(st, new, ln)
            for j, sort in enumerate(slots(b.elem)):
                key = self.items_key(b.elem, j)
                a = self.harr(st, key, z3.ArraySort(IntS, sort))
                fa = fresh(z3.ArraySort(IntS, sort), 'slice')
                i = fresh_int('qi')
                st.assume(z3.ForAll([i], z3.Implies(z3.And(i >= 0, i < ln),
                                                    z3.Select(fa, i) == z3.Select(z3.Select(a, b.t), s + i))))
                self.hset(st, key, z3.Store(a, new.t, fa))
            return [(st, new)]
        if isinstance(b, VTuple):
            if all(isinstance(x, VNone) or z3.is_int_value(simp(x.t)) for x in (lo, hi)):
                l = None if isinstance(lo, VNone) else simp(lo.t).as_long()
                h = None if isinstance(hi, VNone) else simp(hi.t).as_long()
                return [(st, VTuple(b.items[l:h]))]
        raise Unsupported('slice of %s' % b.kind, node)

    # -- operators
    def ev_UnaryOp(self, node, st):
        def after(s, v):
            if isinstance(node.op, ast.Not):
                return [(s, VBool(NOT(self.truthy(s, v))))]
            if isinstance(node.op, ast.USub):
                def neg(s2, a):
                    if isinstance(a, (VInt, VBool)):
                        return [(s2, VInt(-self.num(a)))]
                    if isinstance(a, VFloat):
                        return [(s2, VFloat(-a.t))]
                    raise Unsupported('unary minus on ' + a.kind, node)
                return self.umap(s, v, neg, node)
            raise Unsupported('unary operator', node)
        return self.bind(self.ev(node.operand, st), after)

    def ev_BinOp(self, node, st):
        def after(s, vs):
            a, b = vs
            return self.umap(s, a, lambda s2, x: self.umap(s2, b, lambda s3, y: self.binop(s3, node.op, x, y, node), node), node)
        return self.bind(self.ev_list([node.left, node.right], st), after)

    def binop(self, st, op, a, b, node):
        num = (VInt, VBool)
        if isinstance(a, num) and isinstance(b, num):
            x, y = self.num(a), self.num(b)
            if isinstance(op, ast.Add):
                return [(st, VInt(simp(x + y)))]
            if isinstance(op, ast.Sub):
                return [(st, VInt(simp(x - y)))]
            if isinstance(op, ast.Mult):
                return [(st, VInt(simp(x * y)))]
            if isinstance(op, (ast.FloorDiv, ast.Mod)):
                self.prove(st, y != 0, 'aorte', node, 'ZeroDivisionError: ' + ast.unparse(node))
                # z3 div/mod are floor-division for positive divisors; Python's for negative
                # divisors is encoded explicitly
                fl = z3.If(y > 0, x / y, (-x) / (-y))
                if isinstance(op, ast.FloorDiv):
                    return [(st, VInt(fl))]
                md = x - y * fl
                return [(st, VInt(md))]
            if isinstance(op, ast.Div):
                self.prove(st, y != 0, 'aorte', node, 'ZeroDivisionError: ' + ast.unparse(node))
                return [(st, VFloat(z3.ToReal(x) / z3.ToReal(y)))]
            if isinstance(op, (ast.BitAnd, ast.BitOr, ast.LShift)):
                xs, ys = simp(x), simp(y)
                if z3.is_int_value(xs) and z3.is_int_value(ys) and (not isinstance(op, ast.LShift) or ys.as_long() >= 0):
                    u, w = xs.as_long(), ys.as_long()
                    return [(st, VInt(z3.IntVal(u & w if isinstance(op, ast.BitAnd) else
                                                  u | w if isinstance(op, ast.BitOr) else u << w)))]
                if isinstance(op, ast.LShift) and z3.is_int_value(ys) and ys.as_long() >= 0:
                    return [(st, VInt(simp(xs * (1 << ys.as_long()))))]
                if isinstance(op, (ast.BitAnd, ast.BitOr)):
                    # one operand is a non-negative literal mask: bit b of an integer v is (v div 2^b) mod 2
                    # (floor division: exact for Python's unbounded two's complement integers)
                    if z3.is_int_value(xs):
                        xs, ys = ys, xs
                    if z3.is_int_value(ys) and ys.as_long() >= 0:
                        m = ys.as_long()
                        conj = z3.IntVal(0)
                        b = 0
                        while (1 << b) <= m:
                            if m & (1 << b):
                                conj = conj + (1 << b) * ((xs / (1 << b)) % 2)
                            b += 1
                        conj = simp(conj)
                        if isinstance(op, ast.BitAnd):
                            return [(st, VInt(conj))]
                        return [(st, VInt(simp(xs + m - conj)))]
                raise Unsupported('bit operation on two symbolic integers', node)
        fl = (VInt, VBool, VFloat)
        if isinstance(a, fl) and isinstance(b, fl):
            x = a.t if isinstance(a, VFloat) else z3.ToReal(self.num(a))
            y = b.t if isinstance(b, VFloat) else z3.ToReal(self.num(b))
            self.note('A-float: float arithmetic is modelled over the reals (IEEE rounding ignored)')
            if isinstance(op, ast.Add):
                return [(st, VFloat(x + y))]
            if isinstance(op, ast.Sub):
                return [(st, VFloat(x - y))]
            if isinstance(op, ast.Mult):
                return [(st, VFloat(x * y))]
            if isinstance(op, ast.Div):
                self.prove(st, y != 0, 'aorte', node, 'ZeroDivisionError: ' + ast.unparse(node))
                return [(st, VFloat(x / y))]
        if isinstance(op, ast.Add) and isinstance(a, (VStr, VCh)) and isinstance(b, (VStr, VCh)):
            return [(st, self.concat(st, a, b))]
        if isinstance(op, ast.Add) and isinstance(a, VTuple) and isinstance(b, VTuple):
            return [(st, VTuple(a.items + b.items))]
        if isinstance(op, ast.Mod) and isinstance(a, VStr):
            return [(st, self.format_percent(st, a, b, node))]
        if isinstance(op, ast.Mult) and isinstance(a, (VStr, VCh)) and isinstance(b, num):
            n = self.num(b)
            la = str_len(a) if isinstance(a, VStr) else ITE(a.t >= 0, z3.IntVal(1), z3.IntVal(0))
            r = self.make_fresh(st, ('str',), 'rep')
            st.assume(r.ln == ITE(n > 0, n * la, z3.IntVal(0)))
            one = a if isinstance(a, VCh) else (VCh(ord(a.lit)) if (a.lit is not None and len(a.lit) == 1) else None)
            if one is not None:
                # a single character repeated: every position holds that character
                k = fresh_int('qk')
                st.assume(r.off == 0)
                st.assume(z3.ForAll([k], z3.Implies(z3.And(k >= 0, k < r.ln), z3.Select(r.arr, k) == one.t),
                                    patterns=[z3.Select(r.arr, k)]))
            return [(st, r)]
        if isinstance(op, ast.Add) and isinstance(a, VList) and isinstance(b, VList) and a.elem == b.elem:
            new = VList(a.elem, st.alloc)
            st.alloc = simp(st.alloc + 1)
            self.tag_list(st, new)
            la, lb = self.list_len(st, a), self.list_len(st, b)
            self.fresh_list_contents(st, new)
            st.assume(self.list_len(st, new) == la + lb)
            return [(st, new)]
        if (isinstance(a, VAny) or isinstance(b, VAny)) and not isinstance(a, VNone) and not isinstance(b, VNone):
            self.note('configuration data: arithmetic / repetition on an option value is assumed well-typed (opaque result)')
            return [(st, VAny())]
        if isinstance(a, VNone) or isinstance(b, VNone):
            self.prove(st, FALSE, 'aorte', node, 'TypeError: unsupported operand type(s) for %s: %s and %s: %s'
                       % (type(op).__name__, a.kind, b.kind, ast.unparse(node)))
            raise PathDead()
        raise Unsupported('binary operator %s on %s, %s' % (type(op).__name__, a.kind, b.kind), node)

    def as_str(self, v):
        return self.ch_to_str(v) if isinstance(v, VCh) else v

    def concat(self, st, a, b):
        a, b = self.as_str(a), self.as_str(b)
        if a.lit is not None and b.lit is not None:
            return VStr(lit=a.lit + b.lit)
        if a.lit == '':
            return b
        if b.lit == '':
            return a
        aa, ao, an = str_parts(a)
        ba, bo, bn = str_parts(b)
        r = self.make_fresh(st, ('str',), 'cat')
        st.assume(r.off == 0)
        st.assume(r.ln == an + bn)
        # defined pointwise over the positions of the RESULT (pattern Select(r, k))
        k = fresh_int('qk')
        st.assume(z3.ForAll([k], z3.Implies(z3.And(k >= 0, k < an), z3.Select(r.arr, k) == z3.Select(aa, ao + k)),
                            patterns=[z3.Select(r.arr, k)]))
        k2 = fresh_int('qk')
        st.assume(z3.ForAll([k2], z3.Implies(z3.And(k2 >= an, k2 < an + bn),
                                             z3.Select(r.arr, k2) == z3.Select(ba, bo + k2 - an)),
                            patterns=[z3.Select(r.arr, k2)]))
        return r

    def format_percent(self, st, fmt, arg, node):
        if fmt.lit is None:
            raise Unsupported('% formatting with a non-literal format', node)
        import re
        specs = re.findall(r'%[-0-9.]*[a-zA-Z%]', fmt.lit)
        specs = [s for s in specs if s != '%%']
        args = arg.items if isinstance(arg, VTuple) else [arg]
        if len(specs) != len(args):
            self.prove(st, FALSE, 'aorte', node, 'TypeError: format arity: %s' % ast.unparse(node))
            raise PathDead()
        for sp, a in zip(specs, args):
            if sp[-1] == 'd' and not conforms(a, ('union', (('int',), ('float',)))):
                if isinstance(a, VU):
                    for c, x in a.alts:
                        if not isinstance(x, (VInt, VBool, VFloat)):
                            self.prove(st, NOT(c), 'aorte', node, 'TypeError: %%d format needs a number: %s' % ast.unparse(node))
                else:
                    self.prove(st, FALSE, 'aorte', node, 'TypeError: %%d format needs a number: %s' % ast.unparse(node))
                    raise PathDead()
        r = self.make_fresh(st, ('str',), 'fmt')
        return r

    def ev_Compare(self, node, st):
        operands = [node.left] + list(node.comparators)

        def after(s, vs):
            if not s.spec and any(isinstance(v, VU) for v in vs) and \
                    any(isinstance(op, (ast.Lt, ast.LtE, ast.Gt, ast.GtE, ast.In, ast.NotIn)) for op in node.ops):
                # ordering comparisons on a union: decide the alternative first (the obligation
                # "not None" must be proved under the alternative's guard)
                res = []
                for s2, ws in self.force_all(s, vs):
                    try:
                        res.extend(after(s2, ws))
                    except PathDead:
                        pass
                return res
            conj = []
            for op, a, b in zip(node.ops, vs, vs[1:]):
                conj.append(self.compare(s, op, a, b, node))
            return [(s, VBool(AND(*conj)))]
        # NB: Python short-circuits chained comparisons; operands here are side-effect free
        return self.bind(self.ev_list(operands, st), after)

    def compare(self, st, op, a, b, node):
        if isinstance(op, ast.Eq):
            return self.eq(st, a, b, node)
        if isinstance(op, ast.NotEq):
            return NOT(self.eq(st, a, b, node))
        if isinstance(op, (ast.Is, ast.IsNot)):
            r = self.is_(st, a, b, node)
            return r if isinstance(op, ast.Is) else NOT(r)
        if isinstance(op, (ast.In, ast.NotIn)):
            r = self.contains(st, b, a, node)
            return r if isinstance(op, ast.In) else NOT(r)
        if isinstance(a, VU) or isinstance(b, VU):
            parts = []
            for c, x in (a.alts if isinstance(a, VU) else b.alts):
                try:
                    r = self.compare(st, op, x, b, node) if isinstance(a, VU) else self.compare(st, op, a, x, node)
                except (PathDead, Unsupported):
                    if st.spec:
                        continue      # undefined on this alternative: false in a specification
                    raise
                parts.append(AND(c, r))
            if not st.spec and not isinstance(a, VU):
                pass
            return OR(*parts)
        x, y = self.ord_term(st, a, node), self.ord_term(st, b, node)
        if (x[0] == 'c') != (y[0] == 'c'):
            self.prove(st, FALSE, 'aorte', node, 'TypeError: ordering comparison between %s and %s' % (a.kind, b.kind))
            raise PathDead()
        x, y = x[1], y[1]
        if isinstance(op, ast.Lt):
            return x < y
        if isinstance(op, ast.LtE):
            return x <= y
        if isinstance(op, ast.Gt):
            return x > y
        if isinstance(op, ast.GtE):
            return x >= y
        raise Unsupported('comparison operator', node)

    def ord_term(self, st, v, node):
        if isinstance(v, (VInt, VBool)):
            return ('n', self.num(v))
        if isinstance(v, VFloat):
            return ('n', v.t)
        if isinstance(v, VCh):
            return ('c', v.t)
        if isinstance(v, VStr) and v.lit is not None and len(v.lit) <= 1:
            return ('c', z3.IntVal(ord(v.lit) if v.lit else -1))
        if isinstance(v, VNone):
            self.prove(st, FALSE, 'aorte', node, "TypeError: ordering comparison with None: %s" % ast.unparse(node))
            raise PathDead()
        raise Unsupported('ordering comparison on %s' % v.kind, node)

    def is_(self, st, a, b, node):
        if isinstance(a, VU):
            return OR(*[AND(c, self.is_(st, x, b, node)) for c, x in a.alts])
        if isinstance(b, VU):
            return OR(*[AND(c, self.is_(st, a, x, node)) for c, x in b.alts])
        if isinstance(b, VNone) or isinstance(a, VNone):
            if isinstance(a, VAny) or isinstance(b, VAny):
                x = a if isinstance(a, VAny) else b
                return z3.Function('is_none_any', IntS, BoolS)(x.t)
            return z3.BoolVal(isinstance(a, VNone) and isinstance(b, VNone))
        if isinstance(b, VBool) and (is_true(b.t) or is_false(b.t)):
            if isinstance(a, VBool):
                return a.t == b.t
            if isinstance(a, VAny):
                return z3.Function('is_%s_any' % ('true' if is_true(b.t) else 'false'), IntS, BoolS)(a.t)
            return FALSE
        if isinstance(a, (VRef, VList, VRec, VMap)) and type(a) is type(b):
            return a.t == b.t
        if isinstance(a, VStr) and isinstance(b, VStr) and st.spec:
            # specification only: "is the same string value" = the same view (array, offset, length)
            xa, xo, xn = str_parts(a)
            ya, yo, yn = str_parts(b)
            return AND(xa == ya, xo == yo, xn == yn)
        if type(a) is not type(b):
            return FALSE
        raise Unsupported('`is` on %s' % a.kind, node)

    def contains(self, st, cont, x, node):
        "x in cont"
        if isinstance(cont, VU):
            return OR(*[AND(c, self.contains(st, a, x, node)) for c, a in cont.alts])
        if isinstance(x, VU):
            return OR(*[AND(c, self.contains(st, cont, a, node)) for c, a in x.alts])
        if isinstance(cont, VStr) and cont.lit is not None:
            if isinstance(x, VCh):
                return OR(x.t == -1, *[x.t == ord(c) for c in set(cont.lit)])
            if isinstance(x, VStr) and x.lit is not None:
                return z3.BoolVal(x.lit in cont.lit)
            if isinstance(x, VStr):
                alts = [x.ln == 0]
                subs = set()
                for i in range(len(cont.lit)):
                    for j in range(i + 1, len(cont.lit) + 1):
                        subs.add(cont.lit[i:j])
                if len(subs) > 64:
                    raise Unsupported('substring test against a long literal', node)
                for sub in subs:
                    alts.append(self.eq_str(x, VStr(lit=sub)))
                return OR(*alts)
        if isinstance(cont, VStr) and isinstance(x, (VCh, VStr)):
            if isinstance(x, VStr) and x.lit is not None and len(x.lit) == 1:
                x = VCh(ord(x.lit))
            if isinstance(x, VCh):
                i = fresh_int('qi')
                return OR(x.t == -1, z3.Exists([i], z3.And(i >= 0, i < cont.ln, z3.Select(cont.arr, cont.off + i) == x.t)))
            return fresh_bool('substr')
        if isinstance(cont, VTuple):
            return OR(*[self.eq(st, x, it, node) for it in cont.items])
        if isinstance(cont, VConst):
            py = cont.py
            keys = list(py.keys()) if isinstance(py, dict) else list(py)
            return OR(*[self.eq(st, x, from_py(k), node) for k in keys])
        if isinstance(cont, VList):
            n = self.list_len(st, cont)
            i = fresh_int('qi')
            if cont.elem[0] in ('int', 'ref', 'list', 'char', 'echar') and isinstance(x, (VInt, VRef, VList, VCh)):
                a = self.harr(st, self.items_key(cont.elem, 0), z3.ArraySort(IntS, IntS))
                return z3.Exists([i], z3.And(i >= 0, i < n, z3.Select(z3.Select(a, cont.t), i) == x.t))
            if cont.elem[0] == 'str' and isinstance(x, (VStr, VCh)):
                return self.str_in_list(st, cont, self.as_str(x))
            if cont.elem == ('any',):
                # opaque elements: membership by identity of the opaque ids (deterministic)
                a = self.harr(st, self.items_key(cont.elem, 0), z3.ArraySort(IntS, IntS))
                xt = self.flatten(st, ('any',), x)[0]
                return z3.Exists([i], z3.And(i >= 0, i < n, z3.Select(z3.Select(a, cont.t), i) == xt))
            return fresh_bool('inlist')
        if isinstance(cont, VRec):
            if isinstance(x, VStr) and x.lit is not None:
                return self.rec_present(st, cont, x.lit)
            raise Unsupported('`in` on a record with non-literal key', node)
        if isinstance(cont, (VMap, VAny)):
            # dict membership; for an opaque container: an uninterpreted, deterministic predicate of the key
            m = self.as_map(st, cont, node)
            return self.map_has(st, m, x)
        if isinstance(cont, VNone):
            if st.spec:
                return FALSE
            self.prove(st, FALSE, 'aorte', node, "TypeError: argument of type 'NoneType' is not iterable")
            raise PathDead()
        raise Unsupported('`in` on %s' % cont.kind, node)

    def str_in_list(self, st, l, s):
        "membership of a string in an opaque list of strings: uninterpreted, functional in (list, content)"
        return fresh_bool('strinlist')

    def any_contains(self, cont, x):
        return fresh_bool('inany')

    def ev_BoolOp(self, node, st):
        is_and = isinstance(node.op, ast.And)

        def rest(s, v, i):
            # v: value of operands[0..i-1] combined so far
            if i == len(node.values):
                return [(s, v)]
            t = simp(self.truthy(s, v)) if not isinstance(v, VBool) else v.t
            go = t if is_and else NOT(t)        # condition under which the next operand is evaluated
            if is_true(go):
                return self.bind(self.ev(node.values[i], s), lambda s2, v2: rest(s2, v2, i + 1))
            if is_false(go):
                return [(s, v)]
            sub = s.fork()
            sub.assume(go)
            if not s.spec and not self.feasible(sub):
                s.assume(NOT(go))
                return [(s, v)]
            n_exc = len(self.exc_sink)
            before = (sub.hver, sub.lver, len(sub.frames))
            alloc0 = sub.alloc
            outs = self.bind(self.ev(node.values[i], sub), lambda s2, v2: rest(s2, v2, i + 1))
            mergeable = (len(outs) == 1 and len(self.exc_sink) == n_exc and
                         (outs[0][0].hver, outs[0][0].lver, len(outs[0][0].frames)) == before and
                         outs[0][0].alloc.eq(alloc0))
            if mergeable:
                s2, v2 = outs[0]
                # facts learnt while evaluating the operand hold under its guard
                for c in s2.pc[len(s.pc) + 1:]:
                    s.assume(IMPL(go, c))
                if isinstance(v, VBool) and isinstance(v2, VBool):
                    # plain booleans: a real conjunction / disjunction (kept splittable, friendlier to the solvers)
                    return [(s, VBool(AND(v.t, v2.t) if is_and else OR(v.t, v2.t)))]
                return [(s, mk_union([(NOT(go), v), (go, v2)]))]
            if s.spec:
                raise Unsupported('spec expression with effects: %s' % ast.unparse(node), node)
            res = list(outs)
            s.assume(NOT(go))
            if self.feasible(s):
                res.append((s, v))
            return res

        return self.bind(self.ev(node.values[0], st), lambda s, v: rest(s, v, 1))

    def ev_IfExp(self, node, st):
        def after(s, c):
            t = simp(self.truthy(s, c))
            if is_true(t):
                return self.ev(node.body, s)
            if is_false(t):
                return self.ev(node.orelse, s)
            res = []
            merged = []
            for cond, sub_node in ((t, node.body), (NOT(t), node.orelse)):
                sub = s.fork()
                sub.assume(cond)
                if not s.spec and not self.feasible(sub):
                    continue
                n_exc = len(self.exc_sink)
                before = (sub.hver, sub.lver, len(sub.frames))
                alloc0 = sub.alloc
                try:
                    outs = self.ev(sub_node, sub)
                except PathDead:
                    outs = []
                ok = (len(outs) == 1 and len(self.exc_sink) == n_exc and
                      (outs[0][0].hver, outs[0][0].lver, len(outs[0][0].frames)) == before and
                      outs[0][0].alloc.eq(alloc0))
                merged.append((cond, outs, ok))
            if merged and all(m[2] for m in merged):
                alts = []
                for cond, outs, _ in merged:
                    s2, v2 = outs[0]
                    for c2 in s2.pc[len(s.pc) + 1:]:
                        s.assume(IMPL(cond, c2))
                    alts.append((cond, v2))
                if len(alts) == 1:
                    s.assume(alts[0][0])
                    return [(s, alts[0][1])]
                return [(s, mk_union(alts))]
            if s.spec:
                raise Unsupported('spec conditional with effects', node)
            for cond, outs, _ in merged:
                res.extend(outs)
            return res
        return self.bind(self.ev(node.test, st), after)

    def ev_ListComp(self, node, st):
        """`[f(x, ...) for x in xs]` where f is under a (non-inline) contract.  The callee's precondition is proved
        for an arbitrary element in an arbitrary state reachable through the callee's frame (havoc before the
        generic call), its frame is havocked again afterwards (any number of further calls) and the result is a
        fresh list of len(xs) items of the callee's return type whose contents are left unconstrained."""
        if len(node.generators) != 1 or node.generators[0].ifs or node.generators[0].is_async or \
                not isinstance(node.generators[0].target, ast.Name) or not isinstance(node.elt, ast.Call):
            raise Unsupported('list comprehension (only [f(x, ...) for x in xs])', node)
        gen = node.generators[0]
        var = gen.target.id
        res = []
        its = []
        for s_, xs_ in self.ev(gen.iter, st):
            its.extend(self.umap(s_, xs_, lambda s__, v__: [(s__, v__)], node))
        for s, xs in its:
            if isinstance(xs, VNone):
                self.prove(s, FALSE, 'aorte', node, "TypeError: 'NoneType' object is not iterable")
                continue
            if not isinstance(xs, VList):
                raise Unsupported('list comprehension over a non-list', node)
            n = self.list_len(s, xs)
            k = fresh_int('lc')
            had = var in s.frame.loc
            saved = s.frame.loc.get(var)
            # which contract does the element expression call?
            s.frame.loc[var] = self.list_get(s, xs, k)
            c, fr = self.contract_frame_for_call(s, node.elt)
            if had:
                s.frame.loc[var] = saved
            else:
                s.frame.loc.pop(var, None)
            if c.callback or c.ghost_update:
                raise Unsupported('list comprehension over a callee with callbacks', node)
            RT = parse_type(c.returns)
            s0 = s.fork()
            s0.assume(n == 0)
            s1 = s
            s1.assume(n >= 1)
            if s.spec or self.feasible(s1):
                s1.assume(AND(k >= 0, k < n))
                s1.frame.loc[var] = self.list_get(s1, xs, k)
                old0 = s1.fork()
                old0.frames.append(fr.copy())
                self.havoc_frame(s1, c, fr, node)
                for s2, rv in self.ev(node.elt, s1):
                    c2, fr2 = self._last_contract_call
                    self.havoc_frame(s2, c2, fr2, node)
                    # reflexive-transitive two-state postconditions of the callee (declared `stable` AND listed in
                    # `ensures`, i.e. proved or assumed per call) hold across any number of calls
                    for e_ in c2.stable:
                        if e_ in c2.ensures:
                            s2.assume(self.eval_spec(s2, e_, fr2, old=old0, assume=True))
                    if had:
                        s2.frame.loc[var] = saved
                    else:
                        s2.frame.loc.pop(var, None)
                    l = self.new_list(s2, RT, [], node)
                    self.fresh_list_contents(s2, l)
                    s2.assume(self.list_len(s2, l) == n)
                    res.append((s2, l))
            if s.spec or self.feasible(s0):
                res.append((s0, self.new_list(s0, RT, [], node)))
        return res

    def ev_JoinedStr(self, node, st):
        raise Unsupported('f-string', node)

    def ev_Starred(self, node, st):
        raise Unsupported('starred expression outside a call', node)
