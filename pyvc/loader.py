"""pyvc.loader -- reads the *real* source under $PYVC_REPO (default /repo) with `ast`
on every run.  Nothing from the repository is copied into /verif.

What extraction drops (and nothing else): docstrings / bare string-expression
statements, parameter and return annotations, `global` statements, comments.
"""
import ast
import hashlib
import os

REPO = os.environ.get('PYVC_REPO', '/repo')


class LoadError(Exception):
    pass


def set_repo(path):
    global REPO
    REPO = path
    _MODULES.clear()


def module_path(modname):
    base = os.path.join(REPO, *modname.split('.'))
    if os.path.isdir(base):
        return os.path.join(base, '__init__.py')
    return base + '.py'


def _const_eval(node):
    "literal_eval extended by integer arithmetic / shifts of literals (`1 << 2`): still a constant of the source"
    try:
        return ast.literal_eval(node)
    except Exception:
        pass
    ok = (ast.Expression, ast.BinOp, ast.UnaryOp, ast.Constant, ast.LShift, ast.RShift, ast.BitOr, ast.BitAnd,
          ast.Add, ast.Sub, ast.Mult, ast.USub, ast.UAdd)
    for n in ast.walk(node):
        if not isinstance(n, ok):
            raise ValueError('not a constant expression')
        if isinstance(n, ast.Constant) and not isinstance(n.value, int):
            raise ValueError('not an integer constant expression')
    return eval(compile(ast.Expression(body=node), '<const>', 'eval'), {'__builtins__': {}})


class ClassInfo:
    def __init__(self, module, node):
        self.module = module
        self.node = node
        self.name = node.name
        self.bases = [b.id if isinstance(b, ast.Name) else ast.unparse(b) for b in node.bases]
        self.methods = {}
        self.consts = {}      # class-level literal constants (Chars.X ...)
        self.slots = None
        self.properties = set()
        for st in node.body:
            if isinstance(st, ast.FunctionDef):
                self.methods[st.name] = st
                for d in st.decorator_list:
                    if isinstance(d, ast.Name) and d.id == 'property':
                        self.properties.add(st.name)
            elif isinstance(st, ast.Assign) and len(st.targets) == 1 and isinstance(st.targets[0], ast.Name):
                tname = st.targets[0].id
                try:
                    v = _const_eval(st.value)
                except Exception:
                    continue
                if tname == '__slots__':
                    self.slots = tuple(v) if not isinstance(v, str) else (v,)
                else:
                    self.consts[tname] = v


class Module:
    def __init__(self, name):
        self.name = name
        self.path = module_path(name)
        if not os.path.exists(self.path):
            raise LoadError('no such module file: %s' % self.path)
        with open(self.path, 'rb') as f:
            raw = f.read()
        self.sha256 = hashlib.sha256(raw).hexdigest()
        self.source = raw.decode('utf-8')
        self.tree = ast.parse(self.source, self.path)
        self.is_pkg = self.path.endswith('__init__.py')
        self.functions = {}    # qualname -> FunctionDef
        self.classes = {}      # name -> ClassInfo
        self.imports = {}      # local name -> ('mod', modname) | ('name', modname, attr)
        self.consts = {}       # name -> python literal value
        self.const_nodes = {}  # name -> ast node of the initialiser (non literal)
        self._index()

    # -- indexing -----------------------------------------------------------
    def _abs(self, level, mod):
        if level == 0:
            return mod
        parts = self.name.split('.')
        if not self.is_pkg:
            parts = parts[:-1]
        if level > 1:
            parts = parts[:-(level - 1)]
        if mod:
            parts = parts + mod.split('.')
        return '.'.join(parts)

    def _index(self):
        for st in self.tree.body:
            if isinstance(st, ast.FunctionDef):
                self._index_fn(st, st.name)
            elif isinstance(st, ast.ClassDef):
                ci = ClassInfo(self, st)
                self.classes[st.name] = ci
                for mname, m in ci.methods.items():
                    self._index_fn(m, '%s.%s' % (st.name, mname))
            elif isinstance(st, ast.ImportFrom):
                target = self._abs(st.level, st.module)
                for a in st.names:
                    local = a.asname or a.name
                    # `from . import tokens` imports a sub-module
                    sub = (target + '.' + a.name) if target else a.name
                    if os.path.exists(module_path(sub)) and not self._defines(target, a.name):
                        self.imports[local] = ('mod', sub)
                    else:
                        self.imports[local] = ('name', target, a.name)
            elif isinstance(st, ast.Import):
                for a in st.names:
                    self.imports[a.asname or a.name.split('.')[0]] = ('mod', a.name)
            elif isinstance(st, ast.Assign) and len(st.targets) == 1 and isinstance(st.targets[0], ast.Name):
                tname = st.targets[0].id
                try:
                    self.consts[tname] = _const_eval(st.value)
                except Exception:
                    self.const_nodes[tname] = st.value

    def _defines(self, modname, attr):
        "does module `modname` define a top-level name `attr` (function/class/constant)?"
        try:
            p = module_path(modname)
            with open(p, 'rb') as f:
                tree = ast.parse(f.read())
        except Exception:
            return False
        for st in tree.body:
            if isinstance(st, (ast.FunctionDef, ast.ClassDef)) and st.name == attr:
                return True
            if isinstance(st, ast.Assign):
                for t in st.targets:
                    if isinstance(t, ast.Name) and t.id == attr:
                        return True
            if isinstance(st, ast.ImportFrom):
                if st.module is None:
                    continue        # `from . import x` imports the sub-module x itself
                for a in st.names:
                    if (a.asname or a.name) == attr:
                        # re-export of a name: counts as defined
                        return True
        return False

    def _index_fn(self, node, qual):
        self.functions[qual] = node
        for st in ast.walk(node):
            if st is node:
                continue
        # nested defs (one lexical level at a time)
        for st in _direct_nested(node):
            self._index_fn(st, '%s.<locals>.%s' % (qual, st.name))


def _direct_nested(fn):
    out = []

    def visit(stmts):
        for s in stmts:
            if isinstance(s, ast.FunctionDef):
                out.append(s)
                continue
            for fld in ('body', 'orelse', 'finalbody'):
                sub = getattr(s, fld, None)
                if isinstance(sub, list):
                    visit(sub)
            if isinstance(s, ast.Try):
                for h in s.handlers:
                    visit(h.body)
    visit(fn.body)
    return out


_MODULES = {}


def load(modname):
    m = _MODULES.get(modname)
    if m is None:
        m = _MODULES[modname] = Module(modname)
    return m


def split_key(key):
    mod, qual = key.split(':', 1)
    return mod, qual


def get_function(key):
    mod, qual = split_key(key)
    m = load(mod)
    fn = m.functions.get(qual)
    if fn is None:
        raise LoadError('function not found in real source: %s' % key)
    return m, fn


def resolve(module, name, _depth=0):
    """Resolve a global name used inside `module` to
       ('func', key) | ('class', modname, clsname) | ('const', value) |
       ('constnode', module, node) | ('mod', modname) | None"""
    if _depth > 8:
        return None
    if name in module.functions and '.' not in name:
        return ('func', '%s:%s' % (module.name, name))
    if name in module.classes:
        return ('class', module.name, name)
    if name in module.consts:
        return ('const', module.consts[name])
    if name in module.const_nodes:
        return ('constnode', module, module.const_nodes[name])
    imp = module.imports.get(name)
    if imp is None:
        return None
    if imp[0] == 'mod':
        return ('mod', imp[1])
    _, target, attr = imp
    try:
        tm = load(target)
    except LoadError:
        return None
    return resolve(tm, attr, _depth + 1)


def find_class(modname, clsname):
    return load(modname).classes.get(clsname)


def loops_of(fn):
    """Loop nodes (While/For) of a function body in source order, *excluding* those of
    nested function definitions (they belong to the nested function's own contract)."""
    out = []

    def visit(stmts):
        for s in stmts:
            if isinstance(s, ast.FunctionDef):
                continue
            if isinstance(s, (ast.While, ast.For)):
                out.append(s)
            for fld in ('body', 'orelse', 'finalbody'):
                sub = getattr(s, fld, None)
                if isinstance(sub, list):
                    visit(sub)
            if isinstance(s, ast.Try):
                for h in s.handlers:
                    visit(h.body)
    visit(fn.body)
    return out


def loop_anchor(node):
    if isinstance(node, ast.While):
        return 'while ' + ast.unparse(node.test)
    return 'for %s in %s' % (ast.unparse(node.target), ast.unparse(node.iter))


def strip_doc(stmts):
    "drop docstrings / bare string expression statements"
    return [s for s in stmts
            if not (isinstance(s, ast.Expr) and isinstance(s.value, ast.Constant)
                    and isinstance(s.value.value, str))]
