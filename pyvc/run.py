"""pyvc.run -- statements, loops (cut with the contract's invariant), the per-function
verification driver, frame checks, vacuity checks."""
import ast
import copy
import time
import traceback
import z3

from . import loader, smt
from .values import *
from .state import *
from .engine import LIST_LEN, LIST_ETYPE, OBJ_CLS, MAX_PATHS, etype_id
from .execu import from_py, LIST_MUTATORS
from .calls import Calls
from .contracts import REG, parse_type, type_str


# methods of str / dict / tuple that never write (used when the receiver's static type is unknown
# while computing the write-set of a loop); no repository class defines a method with one of these names
PURE_METHOD_NAMES = {'isdigit', 'isdecimal', 'isalpha', 'isalnum', 'isspace', 'lower', 'upper', 'strip', 'lstrip',
                     'rstrip', 'startswith', 'endswith', 'find', 'split', 'splitlines', 'join', 'replace', 'format',
                     'get', 'keys', 'values', 'items', 'index', 'count', 'copy', 'title', 'rjust', 'ljust'}


def _anchor_ok(anchor, real):
    """a loop clause is bound to its loop by the header text; `for x in` (no iterable) binds to the loop
    over x whatever is iterated -- the iterable is then checked through the invariant, not the binding"""
    return anchor == real or (anchor.endswith(' in') and real.startswith(anchor + ' '))


class Verifier(Calls):

    # ------------------------------------------------------------ statements
    def exec_block(self, stmts, st):
        outs = [(st, 'next', None)]
        for stmt in stmts:
            nxt = []
            for s, kind, v in outs:
                if kind != 'next':
                    nxt.append((s, kind, v))
                    continue
                nxt.extend(self.exec_stmt(stmt, s))
            outs = nxt
            if not outs:
                break
        return outs

    def exec_stmt(self, stmt, st):
        if isinstance(stmt, ast.Return) and st.frames:
            # ghost code attached to a return statement runs just before it
            c0 = REG.fns.get(st.frame.fnkey)
            if c0 is not None and c0.ghost_code:
                gc0 = c0.ghost_code.get(ast.unparse(stmt))
                if gc0:
                    for line in gc0:
                        gname, gexpr = [x.strip() for x in line.split('=', 1)]
                        st.frame.loc[gname] = self.eval_spec_value(st, gexpr, st.frame, old=st.old)
                        st.lver += 1
        saved = self.exc_sink
        self.exc_sink = mine = []
        # the function this statement belongs to (an inlined callee may leave its frame on `st` itself)
        fnkey0 = st.frame.fnkey if st.frames else None
        try:
            m = getattr(self, 'st_' + type(stmt).__name__, None)
            if m is None:
                raise Unsupported('statement %s' % type(stmt).__name__, stmt)
            try:
                outs = m(stmt, st)
            except PathDead:
                outs = []
        finally:
            self.exc_sink = saved
        outs = list(outs)
        # ghost code attached to this statement by the contract (witness bookkeeping; never changes real state)
        if outs and isinstance(stmt, (ast.Assign, ast.AugAssign, ast.Expr)):
            c = REG.fns.get(fnkey0) if fnkey0 is not None else None
            if c is not None and c.ghost_code:
                gc = c.ghost_code.get(ast.unparse(stmt))
                if gc:
                    for s, kind, v in outs:
                        if kind != 'next':
                            continue
                        for line in gc:
                            gname, gexpr = [x.strip() for x in line.split('=', 1)]
                            gv = self.eval_spec_value(s, gexpr, s.frame, old=s.old)
                            s.frame.loc[gname] = gv
                            s.lver += 1
        for s, v in mine:
            outs.append((s, 'raise', v))
        return outs

    def st_Pass(self, stmt, st):
        return [(st, 'next', None)]

    def st_Global(self, stmt, st):
        return [(st, 'next', None)]

    def st_Expr(self, stmt, st):
        if isinstance(stmt.value, ast.Constant):
            return [(st, 'next', None)]
        return [(s, 'next', None) for s, _ in self.ev(stmt.value, st)]

    def st_Return(self, stmt, st):
        if stmt.value is None:
            return [(st, 'return', NONE)]
        return [(s, 'return', v) for s, v in self.ev(stmt.value, st)]

    def st_Break(self, stmt, st):
        return [(st, 'break', None)]

    def st_Continue(self, stmt, st):
        return [(st, 'continue', None)]

    def st_Raise(self, stmt, st):
        if stmt.exc is None:
            raise Unsupported('bare raise', stmt)
        res = []
        for s, v in self.ev(stmt.exc, st):
            if isinstance(v, VClass):
                cn = REG.class_name(v.module, v.name)
                v = self.new_object(s, cn) if cn else VAny()
            res.append((s, 'raise', v))
        return res

    def st_FunctionDef(self, stmt, st):
        key = '%s.<locals>.%s' % (st.frame.fnkey, stmt.name)
        self.assign_name(st, stmt.name, VFn(('closure', key, len(st.frames) - 1)))
        return [(st, 'next', None)]

    def st_Assign(self, stmt, st):
        self.annotate_literal(stmt.value, stmt.targets[0], st)

        def after(s, v):
            outs = [s]
            for tgt in stmt.targets:
                nxt = []
                for s2 in outs:
                    try:
                        nxt.extend(self.assign(s2, tgt, v, stmt))
                    except PathDead:
                        pass
                outs = nxt
            return [(s2, 'next', None) for s2 in outs]
        return self.bind(self.ev(stmt.value, st), after)

    def st_AnnAssign(self, stmt, st):
        if stmt.value is None:
            return [(st, 'next', None)]
        return self.bind(self.ev(stmt.value, st),
                         lambda s, v: [(s2, 'next', None) for s2 in self.assign(s, stmt.target, v, stmt)])

    def annotate_literal(self, value, target, st):
        "give `[]` / `{...}` literals the declared type of the local they initialise"
        if isinstance(target, ast.Name):
            T = self.local_types.get((st.frame.fnkey, target.id))
            if T is not None:
                if isinstance(value, ast.List) and T[0] == 'list':
                    value._pyvc_elem = T[1]
                if isinstance(value, ast.Dict) and T[0] == 'rec':
                    value._pyvc_rec = T[1]
                if isinstance(value, ast.Dict) and T[0] == 'map':
                    value._pyvc_map = True

    def assign(self, st, tgt, v, stmt):
        "-> list of states"
        if isinstance(tgt, ast.Name):
            T = self.local_types.get((st.frame.fnkey, tgt.id))
            if T is not None:
                v = self.coerce(st, v, T, stmt, 'local %s' % tgt.id)
            self.assign_name(st, tgt.id, v)
            return [st]
        if isinstance(tgt, ast.Attribute):
            res = []
            for s, base in self.ev(tgt.value, st):
                for s2, b in self.force(s, base):
                    if isinstance(b, VNone):
                        try:
                            self.prove(s2, FALSE, 'aorte', stmt, "AttributeError: 'NoneType' has no attribute %r" % tgt.attr)
                        except PathDead:
                            pass
                        continue
                    if not isinstance(b, VRef):
                        raise Unsupported('attribute store on %s' % b.kind, stmt)
                    try:
                        self.store_field(s2, b, tgt.attr, v, stmt)
                        res.append(s2)
                    except PathDead:
                        pass
            return res
        if isinstance(tgt, ast.Subscript):
            res = []
            for s, vs in self.ev_list([tgt.value, tgt.slice], st):
                base, idx = vs
                for s2, b in self.force(s, base):
                    try:
                        if isinstance(b, VList):
                            i = self.norm_index(s2, self.num(idx), self.list_len(s2, b), stmt, ast.unparse(tgt))
                            self.list_set(s2, b, i, v, stmt)
                            res.append(s2)
                        elif isinstance(b, VRec):
                            for s3, k in self.force(s2, idx):
                                if isinstance(k, VStr) and k.lit is not None:
                                    self.rec_store(s3, b, k.lit, v, stmt)
                                    res.append(s3)
                                else:
                                    raise Unsupported('record store with non-literal key', stmt)
                        elif isinstance(b, (VMap, VAny)):
                            m = self.as_map(s2, b, stmt)
                            for s3, k in self.force(s2, idx):
                                self.map_store(s3, m, k, v, stmt)
                                res.append(s3)
                        else:
                            raise Unsupported('subscript store on %s' % b.kind, stmt)
                    except PathDead:
                        pass
            return res
        if isinstance(tgt, (ast.Tuple, ast.List)):
            outs = []
            for s, val in self.force(st, v):
                if not isinstance(val, VTuple) or len(val.items) != len(tgt.elts):
                    raise Unsupported('unpacking of %s' % val.kind, stmt)
                cur = [s]
                for t, item in zip(tgt.elts, val.items):
                    nxt = []
                    for s2 in cur:
                        nxt.extend(self.assign(s2, t, item, stmt))
                    cur = nxt
                outs.extend(cur)
            return outs
        raise Unsupported('assignment target %s' % type(tgt).__name__, stmt)

    def st_AugAssign(self, stmt, st):
        load = copy.copy(stmt.target)
        load.ctx = ast.Load()
        binop = ast.BinOp(left=load, op=stmt.op, right=stmt.value)
        ast.copy_location(binop, stmt)
        ast.fix_missing_locations(binop)
        return self.bind(self.ev(binop, st),
                         lambda s, v: [(s2, 'next', None) for s2 in self.assign(s, stmt.target, v, stmt)])

    def st_If(self, stmt, st):
        res = []
        for s, c in self.ev(stmt.test, st):
            t = simp(self.truthy(s, c))
            for cond, body in ((t, stmt.body), (NOT(t), stmt.orelse)):
                if is_false(cond):
                    continue
                s2 = s if is_true(cond) else s.fork()
                s2.assume(cond)
                if not is_true(cond):
                    if not self.feasible(s2):
                        continue
                    self.count_path(stmt)
                s2.trace.append('L%d:%s' % (stmt.lineno, 'T' if body is stmt.body else 'F'))
                res.extend(self.exec_block(body, s2))
        return res

    def count_path(self, node):
        self.npaths += 1
        if self.npaths > MAX_PATHS:
            raise Unsupported('path explosion (> %d forks)' % MAX_PATHS, node)

    def st_Assert(self, stmt, st):
        res = []
        for s, c in self.ev(stmt.test, st):
            self.prove(s, self.truthy(s, c), 'aorte', stmt, 'AssertionError: ' + ast.unparse(stmt.test))
            res.append((s, 'next', None))
        return res

    def st_Try(self, stmt, st):
        if stmt.orelse:
            raise Unsupported('try/else', stmt)
        if stmt.finalbody:
            # try/finally: the final block runs on EVERY way out of the protected statements (normal, return,
            # break/continue, exception) and the original outcome continues unless the final block itself
            # leaves abnormally
            inner = ast.Try(body=stmt.body, handlers=stmt.handlers, orelse=[], finalbody=[])
            ast.copy_location(inner, stmt)
            outs0 = self.st_Try(inner, st) if stmt.handlers else self.exec_block(stmt.body, st)
            res = []
            for s, kind, v in outs0:
                for s2, k2, v2 in self.exec_block(stmt.finalbody, s):
                    if k2 == 'next':
                        res.append((s2, kind, v))
                    else:
                        res.append((s2, k2, v2))
            return res
        outs = self.exec_block(stmt.body, st)
        res = []
        for s, kind, v in outs:
            if kind != 'raise':
                res.append((s, kind, v))
                continue
            handled = False
            for h in stmt.handlers:
                if h.type is None:
                    match = TRUE
                else:
                    cv = self.ev1(h.type, s)
                    if isinstance(v, VRef) and isinstance(cv, VClass):
                        match = simp(self.isinstance_(s, v, cv, stmt))
                    elif isinstance(cv, VFn) and cv.what == ('builtin', 'Exception'):
                        match = TRUE
                    else:
                        match = FALSE
                if is_false(match):
                    continue
                s2 = s.fork()
                s2.assume(match)
                if h.name:
                    self.assign_name(s2, h.name, v)
                res.extend(self.exec_block(h.body, s2))
                if is_true(match):
                    handled = True
                    break
                s.assume(NOT(match))
            if not handled:
                res.append((s, kind, v))
        return res

    # ------------------------------------------------------------ loops
    def loop_contract(self, st, node):
        key = st.frame.fnkey
        c = REG.fns.get(key)
        m, fn = loader.get_function(key)
        loops = loader.loops_of(fn)
        try:
            k = next(i for i, l in enumerate(loops) if l is node)
        except StopIteration:
            raise Unsupported('loop not found in its function', node)
        spec = c.loops.get(k) if c is not None else None
        if spec is None:
            raise Unsupported('loop %d of %s has no invariant' % (k, key), node)
        return k, spec

    def st_While(self, stmt, st):
        if stmt.orelse:
            raise Unsupported('while/else', stmt)
        k, spec = self.loop_contract(st, stmt)
        return self.run_loop(st, stmt, k, spec, guard=stmt.test, pre_body=None)

    def st_For(self, stmt, st):
        if stmt.orelse:
            raise Unsupported('for/else', stmt)
        res = []
        it = stmt.iter
        enum = False
        if isinstance(it, ast.Call) and isinstance(it.func, ast.Name) and it.func.id == 'enumerate' and \
                len(it.args) == 1 and not it.keywords:
            it = it.args[0]
            enum = True
        stmt._pyvc_enum = enum
        for s, seq in self.ev(it, st):
            for s2, sv in self.force(s, seq):
                res.extend(self.for_over(s2, stmt, sv))
        return res

    def for_over(self, st, stmt, seq):
        # statically known sequences are unrolled -- no invariant needed
        items = None
        if isinstance(seq, VTuple):
            items = seq.items
        elif isinstance(seq, VConst) and isinstance(seq.py, (list, tuple)):
            items = [from_py(x) for x in seq.py]
        elif isinstance(seq, VStr) and seq.lit is not None:
            items = [VCh(ord(c)) for c in seq.lit]
        if items is not None:
            if getattr(stmt, '_pyvc_enum', False):
                items = [VTuple([VInt(i), x]) for i, x in enumerate(items)]
            outs = [(st, 'next', None)]
            for it in items:
                nxt = []
                for s, kind, v in outs:
                    if kind != 'next':
                        nxt.append((s, kind, v))
                        continue
                    for s2 in self.assign(s, stmt.target, it, stmt):
                        for o in self.exec_block(stmt.body, s2):
                            if o[1] == 'continue':
                                nxt.append((o[0], 'next', None))
                            else:
                                nxt.append(o)
                outs = nxt
            return [(s, 'next' if kind == 'break' else kind, v) for s, kind, v in outs]
        k, spec = self.loop_contract(st, stmt)
        ivar = '_i%d' % k
        svar = '_seq%d' % k
        self.assign_name(st, ivar, VInt(0))
        self.assign_name(st, svar, seq)
        return self.run_loop(st, stmt, k, spec, guard=None, pre_body=(ivar, svar))

    def seq_len(self, st, seq, node):
        if isinstance(seq, VStr):
            return str_len(seq)
        if isinstance(seq, VList):
            return self.list_len(st, seq)
        if isinstance(seq, VAny):
            # an opaque iterable: some non-negative number of opaque items
            n = z3.Function('iter_len_any', IntS, IntS)(seq.t)
            st.assume(n >= 0)
            return n
        raise Unsupported('for loop over %s' % seq.kind, node)

    def seq_item(self, st, seq, i, node):
        if isinstance(seq, VStr):
            v = VCh(str_at(seq, i))
            st.assume(v.t >= 0)
            return v
        if isinstance(seq, VList):
            return self.list_get(st, seq, i)
        if isinstance(seq, VAny):
            return VAny(z3.Function('iter_item_any', IntS, IntS, IntS)(seq.t, i))
        raise Unsupported('for loop over %s' % seq.kind, node)

    def run_loop(self, st, stmt, k, spec, guard, pre_body):
        key = st.frame.fnkey
        anchor = loader.loop_anchor(stmt)
        line = stmt.lineno
        frame = st.frame
        invs = spec.get('invariant', [])
        # 1. invariant holds on entry
        for inv in invs:
            self.prove(st, self.eval_spec(st, inv, self.cur_spec_frame(st), old=st.old), 'inv-init[%d]' % k, stmt, inv)
        # 2. havoc everything the body may assign
        writes = {'locals': set(), 'heap': []}
        body_and_guard = list(stmt.body)
        if guard is not None:
            # the guard is evaluated before every iteration: its side effects (`while scanner.consume(...)`) count
            body_and_guard = [ast.copy_location(ast.Expr(value=guard), stmt)] + body_and_guard
        self.collect_writes(body_and_guard, st, {}, True, 0, writes)
        cfun = REG.fns.get(key)
        if cfun is not None and cfun.ghost:
            # ghost state is updated by callback invocations / ghost code, which are not visible syntactically
            if cfun.callback or cfun.ghost_update or cfun.captures or not cfun.ghost_code:
                writes['locals'].update(cfun.ghost)
            else:
                # only ghost code: a ghost variable changes in this loop iff one of its anchors lies in the loop
                texts = set()
                for n_ in ast.walk(ast.Module(body=body_and_guard, type_ignores=[])):
                    if isinstance(n_, ast.stmt):
                        texts.add(ast.unparse(n_))
                    elif isinstance(n_, ast.Call):
                        texts.add('call ' + ast.unparse(n_))
                for anchor, lines in cfun.ghost_code.items():
                    if anchor in texts:
                        for gline in lines:
                            writes['locals'].add(gline.split('=', 1)[0].strip())
        if pre_body:
            writes['locals'].add(pre_body[0])
            for n in ast.walk(stmt.target):
                if isinstance(n, ast.Name):
                    writes['locals'].add(n.id)
        fresh_bound = None
        if spec.get('writes') == 'fresh':
            fresh_bound = st.owner_bound if st.owner_bound is not None else st.old.alloc
        region = None
        w = spec.get('writes')
        if isinstance(w, str) and w.startswith('elements:'):
            # the loop writes only fields of objects held by this list (which it does not change itself)
            lv = self.eval_spec_value(st, w[len('elements:'):], self.cur_spec_frame(st), old=st.old)
            region = self.elems_snapshot(st, lv, stmt)
            self._region_cls = lv.elem[1] if lv.elem[0] == 'ref' else None
        exempt = self.havoc_loop(st, writes, stmt, fresh_bound, region)
        self._region_cls = None
        saved_fresh_only = st.fresh_only
        if fresh_bound is not None or region is not None:
            st.fresh_only = (fresh_bound, exempt, region)
        # 3. assume the invariant in the arbitrary iteration state
        for inv in invs:
            st.assume(self.eval_spec(st, inv, self.cur_spec_frame(st), old=st.old, assume=True))
        if pre_body:
            ivar, svar = pre_body
            iv = self.lookup(st, ivar)
            st.assume(iv.t >= 0)
        dec0 = None
        if spec.get('decreases'):
            dec0 = self.eval_spec_value(st, spec['decreases'], self.cur_spec_frame(st), old=st.old)
        results = []
        # 4. guard
        branches = []
        if guard is not None:
            for s, c in self.ev(guard, st):
                t = simp(self.truthy(s, c))
                for cond, taken in ((t, True), (NOT(t), False)):
                    if is_false(cond):
                        continue
                    s2 = s.fork()
                    s2.assume(cond)
                    if self.feasible(s2):
                        branches.append((s2, taken))
        else:
            ivar, svar = pre_body
            seq = self.lookup(st, svar)
            iv = self.lookup(st, ivar)
            n = self.seq_len(st, seq, stmt)
            s_in = st.fork()
            s_in.assume(iv.t < n)
            if self.feasible(s_in):
                item = self.seq_item(s_in, seq, iv.t, stmt)
                if getattr(stmt, '_pyvc_enum', False):
                    item = VTuple([VInt(iv.t), item])
                for s3 in self.assign(s_in, stmt.target, item, stmt):
                    self.assign_name(s3, ivar, VInt(simp(iv.t + 1)))
                    branches.append((s3, True))
            s_out = st.fork()
            s_out.assume(iv.t >= n)
            if self.feasible(s_out):
                branches.append((s_out, False))
        # a loop whose body is unreachable under its invariant on EVERY visit would never be checked: recorded
        # per loop, reported by verify() as vacuity (one visit without an iteration is normal)
        lk = (key, line, k)
        self.loop_body_seen[lk] = self.loop_body_seen.get(lk, False) or any(t for _, t in branches)
        for s, taken in branches:
            if not taken:
                s.trace.append('L%d:exit' % line)
                s.fresh_only = saved_fresh_only
                results.append((s, 'next', None))
                continue
            self.count_path(stmt)
            s.trace.append('L%d:iter' % line)
            for s2, kind, v in self.exec_block(stmt.body, s):
                if kind in ('next', 'continue'):
                    # back edge: invariant preserved, variant decreases
                    try:
                        for inv in invs:
                            self.prove(s2, self.eval_spec(s2, inv, self.cur_spec_frame(s2), old=s2.old),
                                       'inv-preserve[%d]' % k, stmt, inv)
                        if dec0 is not None:
                            dec1 = self.eval_spec_value(s2, spec['decreases'], self.cur_spec_frame(s2), old=s2.old)
                            self.prove(s2, AND(dec0.t >= 0, dec1.t < dec0.t), 'variant[%d]' % k, stmt,
                                       'decreases ' + spec['decreases'])
                    except PathDead:
                        pass
                elif kind == 'break':
                    s2.trace.append('L%d:break' % line)
                    s2.fresh_only = saved_fresh_only
                    results.append((s2, 'next', None))
                else:
                    s2.fresh_only = saved_fresh_only
                    results.append((s2, kind, v))
        return results

    def cur_spec_frame(self, st):
        return st.frame

    # -- syntactic write-set of a loop body
    def collect_writes(self, stmts, st, submap, is_caller_scope, depth, acc):
        """acc['locals']: names assigned (caller scope only)
           acc['heap']: (kind, name, recv_ast | None)  kind: field / list / rec / all"""
        if depth > 6:
            acc['heap'].append(('all', None, None))
            return

        def sub(e):
            "substitute callee parameter names by the caller's argument ASTs; None when unknown"
            ok = [True]

            class T(ast.NodeTransformer):
                def visit_Name(self_, n):
                    if n.id in submap:
                        r = submap[n.id]
                        if r is None:
                            ok[0] = False
                            return n
                        return copy.deepcopy(r)
                    if not is_caller_scope:
                        ok[0] = False
                    return n
            r = T().visit(copy.deepcopy(e))
            return r if ok[0] else None

        def visit_target(t):
            if isinstance(t, ast.Name):
                if is_caller_scope and t.id not in submap:
                    acc['locals'].add(t.id)
            elif isinstance(t, ast.Attribute):
                acc['heap'].append(('field', t.attr, sub(t.value)))
            elif isinstance(t, ast.Subscript):
                k = t.slice.value if isinstance(t.slice, ast.Constant) and isinstance(t.slice.value, str) else None
                acc['heap'].append(('item', k, sub(t.value)))
            elif isinstance(t, (ast.Tuple, ast.List)):
                for e in t.elts:
                    visit_target(e)

        def visit(node):
            if isinstance(node, ast.FunctionDef):
                return
            if isinstance(node, ast.Assign):
                for t in node.targets:
                    visit_target(t)
            elif isinstance(node, (ast.AugAssign, ast.AnnAssign)):
                visit_target(node.target)
            elif isinstance(node, ast.For):
                visit_target(node.target)
                if is_caller_scope:
                    # hidden index of contracted for-loops
                    key = st.frame.fnkey
                    try:
                        _, fn = loader.get_function(key)
                        ls = loader.loops_of(fn)
                        for i, l in enumerate(ls):
                            if l is node:
                                acc['locals'].add('_i%d' % i)
                                acc['locals'].add('_seq%d' % i)
                    except Exception:
                        pass
            elif isinstance(node, ast.Call):
                self.collect_call_writes(node, st, submap, is_caller_scope, depth, acc, sub)
            for ch in ast.iter_child_nodes(node):
                visit(ch)
        for s in stmts:
            visit(s)

    def static_callee(self, node, st, submap, is_caller_scope):
        "-> (kind, key, self_ast) for a call node, or None if unknown"
        f = node.func
        probe = st.fork()
        probe.spec = True
        if isinstance(f, ast.Name):
            if f.id in submap and submap[f.id] is not None:
                # the argument expression belongs to the caller: resolve it in the caller's frame
                so = st
                if not is_caller_scope and st.frames and st.frame.parent is not None:
                    so = st.fork()
                    so.frames = so.frames[:st.frame.parent + 1]
                return self.static_callee(ast.Call(func=submap[f.id], args=node.args, keywords=node.keywords), so, {}, True)
            try:
                v = self.lookup(probe, f.id, node)
            except Unsupported:
                return None
            if isinstance(v, VFn):
                if v.what[0] == 'repo':
                    return ('repo', v.what[1], None)
                if v.what[0] == 'closure':
                    return ('closure', v.what[1], None)
                if v.what[0] == 'builtin':
                    return ('builtin', v.what[1], None)
                if v.what[0] == 'callback':
                    return ('callback', v.what[1], None)
                if v.what[0] == 'pred':
                    return ('builtin', 'pred', None)
            if isinstance(v, VClass):
                cn = REG.class_name(v.module, v.name)
                key, _ = self.find_method(cn, '__init__') if cn else (None, None)
                return ('ctor', key, None)
            return None
        if isinstance(f, ast.Attribute):
            if isinstance(f.value, ast.Call) and isinstance(f.value.func, ast.Name) and f.value.func.id == 'super':
                return ('builtin', 'super', None)
            recv_t = self.static_type(f.value, st, submap, is_caller_scope)
            if recv_t is None:
                if f.attr in PURE_METHOD_NAMES:
                    return ('builtin', 'pure.' + f.attr, None)
                return None
            if recv_t[0] == 'ref':
                key, _ = self.find_method(recv_t[1], f.attr)
                if key:
                    return ('method', key, f.value)
                return None
            if recv_t[0] == 'list':
                return ('listmethod', f.attr, f.value)
            if recv_t[0] in ('str', 'char', 'echar'):
                return ('builtin', 'str.' + f.attr, None)
            if recv_t[0] == 'rec':
                return ('recmethod', f.attr, f.value)
            if recv_t[0] == 'const':
                return ('builtin', 'const.' + f.attr, None)
            if recv_t[0] == 'class':
                return ('repo', '%s:%s.%s' % (recv_t[1], recv_t[2], f.attr), None)
            if recv_t[0] == 'module':
                r = loader.resolve(loader.load(recv_t[1]), f.attr)
                if r and r[0] == 'func':
                    return ('repo', r[1], None)
                if r and r[0] == 'class':
                    cn = REG.class_name(r[1], r[2])
                    key, _ = self.find_method(cn, '__init__') if cn else (None, None)
                    return ('ctor', key, None)
        return None

    def static_type(self, e, st, submap, is_caller_scope):
        "best-effort static type of an expression (used for write-set computation only)"
        if isinstance(e, ast.Name):
            if e.id in submap:
                if submap[e.id] is None:
                    return None
                return self.static_type(submap[e.id], st, {}, True)
            T = self.local_types.get((st.frame.fnkey, e.id))
            if T is not None and T[0] != 'union':
                return T
            probe = st.fork()
            probe.spec = True
            try:
                v = self.lookup(probe, e.id, e)
            except Unsupported:
                return None
            return self.type_of_value(v)
        if isinstance(e, ast.Attribute):
            bt = self.static_type(e.value, st, submap, is_caller_scope)
            if bt and bt[0] == 'ref':
                fi = REG.field_decl(bt[1], e.attr)
                if fi:
                    T = parse_type(fi[1])
                    if T[0] == 'union':
                        nn = [x for x in T[1] if x != ('none',)]
                        if len(nn) == 1:
                            return nn[0]
                        return None
                    return T
            return None
        if isinstance(e, ast.Subscript):
            bt = self.static_type(e.value, st, submap, is_caller_scope)
            if bt and bt[0] == 'list':
                T = bt[1]
                if T[0] == 'union':
                    nn = [x for x in T[1] if x != ('none',)]
                    return nn[0] if len(nn) == 1 else None
                return T
            if bt and bt[0] == 'rec' and isinstance(e.slice, ast.Constant):
                f = self.rec_fields(bt[1]).get(e.slice.value)
                return parse_type(f) if f else None
            return None
        if isinstance(e, ast.BoolOp):
            ts = [self.static_type(x, st, submap, is_caller_scope) for x in e.values]
            return ts[-1]
        return None

    def type_of_value(self, v):
        if isinstance(v, VRef):
            return ('ref', v.cls)
        if isinstance(v, VList):
            return ('list', v.elem)
        if isinstance(v, VRec):
            return ('rec', v.name)
        if isinstance(v, (VStr,)):
            return ('str',)
        if isinstance(v, VCh):
            return ('echar',)
        if isinstance(v, VConst):
            return ('const',)
        if isinstance(v, VClass):
            return ('class', v.module, v.name)
        if isinstance(v, VModule):
            return ('module', v.name)
        if isinstance(v, VU):
            ts = set()
            for _, a in v.alts:
                if isinstance(a, VNone):
                    continue
                ts.add(self.type_of_value(a))
            if len(ts) == 1:
                return ts.pop()
        return None

    def collect_call_writes(self, node, st, submap, is_caller_scope, depth, acc, sub):
        sc = self.static_callee(node, st, submap, is_caller_scope)
        if sc is None:
            acc['heap'].append(('all', 'unknown callee %s' % ast.unparse(node.func), None))
            return
        kind, key, self_ast = sc
        if kind == 'builtin':
            return
        if kind == 'callback':
            return
        if kind == 'listmethod':
            if key in LIST_MUTATORS:
                acc['heap'].append(('list', None, sub(self_ast)))
            return
        if kind == 'recmethod':
            if key in ('update', 'pop', 'clear', 'setdefault'):
                acc['heap'].append(('rec', None, sub(self_ast)))
            return
        if key is None:
            return
        c = REG.fns.get(key)
        try:
            m, fn = loader.get_function(key)
        except loader.LoadError:
            acc['heap'].append(('all', 'unresolvable ' + key, None))
            return
        # parameter -> argument AST
        a = fn.args
        names = [x.arg for x in a.posonlyargs + a.args]
        argmap = {}
        actual = list(node.args)
        if kind == 'method':
            actual = [self_ast] + actual
        elif kind == 'ctor':
            actual = [None] + actual
        for n, e in zip(names, actual):
            if isinstance(e, ast.Starred):
                e = None
            argmap[n] = sub(e) if e is not None else None
        for kw in node.keywords:
            if kw.arg:
                argmap[kw.arg] = sub(kw.value)
        for n in names:
            argmap.setdefault(n, None)
        if a.vararg:
            argmap[a.vararg.arg] = None
        if c is not None and not c.inline:
            for mexpr in c.modifies:
                self.add_modifies_entry(mexpr, argmap, acc, c)
            if parse_type(c.returns)[0] != 'none' or True:
                pass
            return
        # inline callee: recurse into the real body
        if kind == 'closure':
            # closure bodies see the enclosing function's names directly
            sm = dict(submap)
            sm.update(argmap)
            self.collect_writes(loader.strip_doc(fn.body), st, sm, is_caller_scope, depth + 1, acc)
            # names assigned inside the closure are its own locals
            own = {n.id for n in ast.walk(fn) if isinstance(n, ast.Name) and isinstance(n.ctx, ast.Store)}
            acc['locals'] -= (own - self._outer_assigned)
        else:
            # names inside the callee resolve in the callee's module
            st2 = st.fork()
            st2.frames.append(Frame(m, key, parent=len(st.frames) - 1))
            self.collect_writes(loader.strip_doc(fn.body), st2, argmap, False, depth + 1, acc)

    def static_list_type(self, c, expr_ast):
        "declared element type of the list named by `p.f` / `p` over the callee's parameters (None if unknown)"
        try:
            if isinstance(expr_ast, ast.Name):
                T = parse_type(c.params[expr_ast.id])
            elif isinstance(expr_ast, ast.Attribute) and isinstance(expr_ast.value, ast.Name):
                PT = parse_type(c.params[expr_ast.value.id])
                if PT[0] != 'ref':
                    return None
                T = self.field_info(PT[1], expr_ast.attr)[1]
            else:
                return None
        except Exception:
            return None
        alts = T[1] if T[0] == 'union' else (T,)
        ls = [a for a in alts if a[0] == 'list']
        if len(ls) != 1 or any(a[0] not in ('list', 'none') for a in alts):
            return None
        return 'list[%s]::*' % type_str(ls[0][1])

    def add_modifies_entry(self, mexpr, argmap, acc, c=None):
        mexpr = mexpr.strip()
        if mexpr == '*':
            acc['heap'].append(('all', 'callee modifies *', None))
            return

        def sub(e):
            ok = [True]

            class T(ast.NodeTransformer):
                def visit_Name(self_, n):
                    r = argmap.get(n.id)
                    if r is None:
                        ok[0] = False
                        return n
                    return copy.deepcopy(r)
            r = T().visit(copy.deepcopy(e))
            return r if ok[0] else None
        if '::' in mexpr:
            acc['heap'].append(('classwide', mexpr, None))
            return
        if mexpr.endswith('[*]'):
            # hint: if the receiver cannot be evaluated at the loop head, the write still goes to a list of the
            # declared element type only
            hint = self.static_list_type(c, self.parse_spec(mexpr[:-3])) if c is not None else None
            acc['heap'].append(('list', hint, sub(self.parse_spec(mexpr[:-3]))))
            return
        if mexpr.endswith('{*}'):
            acc['heap'].append(('rec', None, sub(self.parse_spec(mexpr[:-3]))))
            return
        t = self.parse_spec(mexpr)
        if isinstance(t, ast.Attribute):
            # the callee's declared parameter class bounds the write when the receiver cannot be evaluated at the
            # loop head (a local assigned in the loop): only that class's field, not every field of that name
            hint = None
            if c is not None and isinstance(t.value, ast.Name) and t.value.id in c.params:
                try:
                    PT = parse_type(c.params[t.value.id])
                    if PT[0] == 'ref':
                        hint = '%s::%s' % (self.field_info(PT[1], t.attr)[0], t.attr)
                except Exception:
                    hint = None
            if hint is not None:
                acc['heap'].append(('fieldc', (t.attr, hint), sub(t.value)))
            else:
                acc['heap'].append(('field', t.attr, sub(t.value)))
            return
        if isinstance(t, ast.Subscript):
            k = t.slice.value if isinstance(t.slice, ast.Constant) and isinstance(t.slice.value, str) else None
            acc['heap'].append(('item', k, sub(t.value)))
            return
        acc['heap'].append(('all', 'modifies %s' % mexpr, None))

    def havoc_loop(self, st, writes, node, fresh_bound=None, region=None):
        assigned = writes['locals']
        exempt = []
        probe = st.fork()
        probe.spec = True
        # heap first (receivers are evaluated in the pre-havoc state)
        todo = []
        for kind, name, recv in writes['heap']:
            if kind == 'all':
                todo.append(('all', name, None))
                continue
            if kind == 'classwide':
                todo.append(('classwide', name, None))
                continue
            val = None
            if recv is not None:
                names = {n.id for n in ast.walk(recv) if isinstance(n, ast.Name)}
                if not (names & assigned):
                    try:
                        val = self.ev1(recv, probe)
                    except (Unsupported, PathDead):
                        val = None
            todo.append((kind, name, val))
        for kind, name, val in todo:
            if kind == 'all':
                if fresh_bound is not None:
                    self.havoc_owned(st, fresh_bound)
                    continue
                self.unmodelled.append('loop@L%d havocs the whole heap: %s' % (node.lineno, name))
                self.havoc_all(st)
                continue
            if kind == 'classwide':
                self.havoc_classwide(st, name, node)
                continue
            if kind == 'fieldc':
                fld_, hint_ = name
                alts_ = None
                if val is not None:
                    alts_ = [a for _, a in (val.alts if isinstance(val, VU) else [(TRUE, val)]) if not isinstance(a, VNone)]
                if alts_ and len(alts_) == 1 and isinstance(alts_[0], VRef) and not isinstance(val, VU):
                    kind, name = 'field', fld_
                elif fresh_bound is None and region is None:
                    self.havoc_classwide(st, hint_, node)
                    continue
                else:
                    kind, name = 'field', fld_
            alts = None
            if val is not None:
                alts = [a for _, a in (val.alts if isinstance(val, VU) else [(TRUE, val)]) if not isinstance(a, VNone)]
            if kind == 'field' and val is not None and isinstance(val, VU) and alts and len(alts) > 1 and \
                    all(isinstance(a, VRef) for a in alts) and fresh_bound is None and region is None:
                # a receiver of several possible classes (`node: TokenElement|TokenGroup`): one conditional store per
                # alternative instead of giving up every object's field of that name
                for c_, a in val.alts:
                    if not isinstance(a, VRef):
                        continue
                    owner, T = self.field_info(a.cls, name, node)
                    nv = self.make_fresh(st, T, name)
                    new = self.flatten(st, T, nv)
                    for j, (sort, t1) in enumerate(zip(slots(T), new)):
                        key = (owner, name, j)
                        arr_ = self.harr(st, key, sort)
                        # the other alternatives keep the raw slot (no re-normalised copy of the current value)
                        self.hset(st, key, z3.Store(arr_, a.t, ITE(c_, t1, z3.Select(arr_, a.t))))
                    exempt.append(a.t)
                continue
            if kind == 'field':
                if alts and all(isinstance(a, VRef) for a in alts) and len(alts) == 1:
                    a = alts[0]
                    owner, T = self.field_info(a.cls, name, node)
                    self.store_field(st, a, name, self.make_fresh(st, T, name), node)
                    exempt.append(a.t)
                else:
                    rc = getattr(self, '_region_cls', None) if region is not None else None
                    for cn, cc in REG.classes.items():
                        if rc is not None and not (REG.is_subclass(cn, rc) or REG.is_subclass(rc, cn)):
                            continue    # the loop writes elements of a list[rc] only: other classes keep their fields
                        if name in cc.fields:
                            T = parse_type(cc.fields[name])
                            for j, sort in enumerate(slots(T)):
                                na = fresh(z3.ArraySort(IntS, sort), 'hv_' + name)
                                if fresh_bound is not None:
                                    # writes='fresh': locations of objects older than this call keep their values
                                    cur = self.harr(st, (cn, name, j), sort)
                                    r = fresh_int('fr')
                                    st.assume(z3.ForAll([r], z3.Implies(r < fresh_bound, z3.Select(na, r) == z3.Select(cur, r))))
                                elif region is not None:
                                    self.elem_frame_axiom(st, region, na, self.harr(st, (cn, name, j), sort))
                                self.hset(st, (cn, name, j), na)
            elif kind in ('list', 'item'):
                if alts and len(alts) == 1 and isinstance(alts[0], VList):
                    self.fresh_list_contents(st, alts[0])
                    exempt.append(alts[0].t)
                elif alts and len(alts) == 1 and isinstance(alts[0], VRec):
                    rv = alts[0]
                    for k2, T in self.rec_fields(rv.name).items():
                        if kind == 'item' and name is not None and k2 != name:
                            continue        # d['key'] = ... writes one key only
                        self.rec_store(st, rv, k2, self.make_fresh(st, parse_type(T), k2))
                    exempt.append(rv.t)
                elif fresh_bound is not None:
                    self.havoc_owned(st, fresh_bound)
                elif kind == 'list' and isinstance(name, str) and '::' in name:
                    self.havoc_classwide(st, name, node)
                else:
                    self.unmodelled.append('loop@L%d: list write through an unknown receiver' % node.lineno)
                    self.havoc_all(st)
            elif kind == 'rec':
                if alts and len(alts) == 1 and isinstance(alts[0], VRec):
                    rv = alts[0]
                    for k2, T in self.rec_fields(rv.name).items():
                        self.rec_store(st, rv, k2, self.make_fresh(st, parse_type(T), k2))
                else:
                    self.havoc_all(st)
        # the loop may allocate
        a2 = fresh_int('alloc')
        st.assume(a2 >= st.alloc)
        st.alloc = a2
        # locals
        for name in sorted(assigned):
            T = self.local_types.get((st.frame.fnkey, name))
            cur = st.frame.loc.get(name)
            if T is not None:
                st.frame.loc[name] = self.make_fresh(st, T, name)
            elif cur is None:
                if name in st.frame.loc:
                    st.frame.loc[name] = None
                # unbound before the loop: stays unbound (must be assigned before use in the body)
            else:
                nv = self.fresh_like(st, cur, name)
                st.frame.loc[name] = nv
        st.lver += 1
        return exempt

    def fresh_like(self, st, v, name):
        if isinstance(v, VInt):
            return VInt(fresh_int(name))
        if isinstance(v, VBool):
            return VBool(fresh_bool(name))
        if isinstance(v, VFloat):
            return VFloat(fresh(RealS, name))
        if isinstance(v, VCh):
            t = fresh_int(name)
            st.assume(t >= -1)
            return VCh(t)
        if isinstance(v, VStr):
            return self.make_fresh(st, ('str',), name)
        if isinstance(v, VRef):
            return self.make_fresh(st, ('ref', v.cls), name)
        if isinstance(v, VList):
            return self.make_fresh(st, ('list', v.elem), name)
        if isinstance(v, VRec):
            return self.make_fresh(st, ('rec', v.name), name)
        if isinstance(v, VTuple):
            return VTuple([self.fresh_like(st, x, name) for x in v.items])
        if isinstance(v, VAny):
            return VAny()
        # None / unions / functions: the type after the loop is not derivable -> must be declared
        return None

    # ------------------------------------------------------------ driver
    def verify(self, key):
        """verify one function against its contract; returns a result dict"""
        t0 = time.time()
        c = REG.fns[key]
        self.cur_key = key
        REG.current_fn = key
        self.obligations = []
        self.unmodelled = []
        self.dead_after_call = []
        self.loop_body_seen = {}
        smt.reset_adaptive()
        self.npaths = 0
        self.exits = 0
        res = {'key': key, 'status': 'ok', 'reason': None, 'binding': 'bound'}
        try:
            m, fn = loader.get_function(key)
        except loader.LoadError as e:
            res.update(status='undecided', reason='stale-contract: %s' % e, binding='stale')
            return self.finish(res, t0, None)
        res['sha256'] = m.sha256
        res['file'] = m.path
        # binding of loop clauses
        loops = loader.loops_of(fn)
        stale = None
        for k, spec in c.loops.items():
            if k >= len(loops):
                stale = 'loop %d no longer exists' % k
                break
            if spec.get('anchor') and not _anchor_ok(spec['anchor'], loader.loop_anchor(loops[k])):
                # try to re-bind by anchor
                cand = [i for i, l in enumerate(loops) if _anchor_ok(spec['anchor'], loader.loop_anchor(l))]
                if len(cand) == 1 and cand[0] not in c.loops:
                    res['binding'] = 'rebound'
                    continue
                stale = 'loop %d header changed: %r is now %r' % (k, spec['anchor'], loader.loop_anchor(loops[k]))
                break
        if stale:
            res.update(status='undecided', reason='stale-contract: ' + stale, binding='stale')
            return self.finish(res, t0, m)
        self.local_types = {}
        self._register_local_types()
        budget = float(__import__('os').environ.get('PYVC_FN_BUDGET_S', '0') or 0)
        self.deadline = (time.time() + budget) if budget > 0 else None
        self.budget_hit = False
        self._outer_assigned = {n.id for n in ast.walk(fn) if isinstance(n, ast.Name) and isinstance(n.ctx, ast.Store)}
        try:
            self.run_function(c, m, fn)
        except Unsupported as e:
            res.update(status='undecided', reason='unsupported: %s @L%s' % (e, self.line(e.node)))
        except smt.SolverDisagreement as e:
            res.update(status='crash', reason='solver disagreement: %s' % e)
        except Exception as e:
            res.update(status='crash', reason='%s: %s\n%s' % (type(e).__name__, e, traceback.format_exc()))
        return self.finish(res, t0, m)

    def _register_local_types(self):
        for key, c in REG.fns.items():
            for n, T in c.locals.items():
                self.local_types[(key, n)] = parse_type(T)

    def finish(self, res, t0, m):
        obs = self.obligations
        res['obligations'] = obs
        res['secs'] = time.time() - t0
        res['unmodelled'] = list(self.unmodelled)
        res['paths'] = self.npaths
        res['exits'] = self.exits
        if res['status'] == 'ok':
            if any(o.verdict == 'sat' for o in obs):
                res['status'] = 'failed'
            elif any(o.verdict != 'unsat' for o in obs):
                res['status'] = 'undecided'
                res['reason'] = 'time budget per function exhausted' if self.budget_hit else 'solver returned unknown'
            elif self.exits == 0:
                res['status'] = 'undecided'
                res['reason'] = 'vacuous: no exit of the function is reachable under its precondition'
            elif self.dead_after_call:
                res['status'] = 'undecided'
                res['reason'] = 'vacuous: ' + self.dead_after_call[0]
            elif any(not seen for seen in getattr(self, 'loop_body_seen', {}).values()):
                lk = next(k for k, seen in self.loop_body_seen.items() if not seen)
                res['status'] = 'undecided'
                res['reason'] = 'vacuous: %s@L%d: the body of loop %d is unreachable under its invariant' % lk
        return res

    def entry_state(self, c, m, fn):
        st = St()
        st.alloc = fresh_int('alloc0')
        st.assume(st.alloc >= 1)
        getters = {}
        strings = []
        # closures: an outer frame holding the captured variables
        parent = None
        if c.captures:
            st.owner_bound = fresh_int('owner_bound')
            st.assume(AND(st.owner_bound >= 1, st.owner_bound <= st.alloc))
            outer_key = c.key.rsplit('.<locals>.', 1)[0]
            outer = Frame(m, outer_key)
            for n, T in c.captures.items():
                outer.loc[n] = self.param_value(st, n, parse_type(T), c)
            # sibling closures of the enclosing function are visible by name
            try:
                _, outer_fn = loader.get_function(outer_key)
                from .loader import _direct_nested
                for sib in _direct_nested(outer_fn):
                    outer.loc.setdefault(sib.name, VFn(('closure', '%s.<locals>.%s' % (outer_key, sib.name), 0)))
            except loader.LoadError:
                pass
            st.frames.append(outer)
            parent = 0
        fr = Frame(m, c.key, parent=parent)
        a = fn.args
        names = [x.arg for x in a.posonlyargs + a.args + a.kwonlyargs]
        if a.vararg or a.kwarg:
            if a.vararg and a.vararg.arg in c.params:
                names.append(a.vararg.arg)
            else:
                raise Unsupported('*args/**kwargs in the function under proof', fn)
        for n in names:
            if n not in c.params:
                raise Unsupported('contract does not type parameter %r' % n, fn)
            fr.loc[n] = self.param_value(st, n, parse_type(c.params[n]), c)
        st.frames.append(fr)
        gl = [z3.Int('G.' + k) for k in sorted(REG.globs)]
        for g in gl:
            st.assume(AND(g >= 1, g < st.alloc))
        if len(gl) > 1:
            st.assume(z3.Distinct(*gl))
        for gk, invs in REG.glob_invariants.items():
            if not invs:
                continue
            gm = loader.load(gk.split(':')[0])
            gfr = Frame(gm, gk)
            T = parse_type(REG.globs[gk])
            if T[0] == 'list':
                gv = VList(T[1], z3.Int('G.' + gk))
                st.assume(AND(self.list_len(st, gv) >= 0,
                              z3.Select(self.harr(st, LIST_ETYPE, IntS), gv.t) == __import__('pyvc.engine', fromlist=['etype_id']).etype_id(T[1])))
            if T[0] == 'ref':
                st.assume(self.class_is(st, z3.Int('G.' + gk), T[1]))
            for inv in invs:
                st.assume(self.eval_spec(st, inv, gfr, assume=True))
        for g, (T, init) in c.ghost.items():
            fr.loc[g] = self.coerce(st, self.eval_spec_value(st, init, fr), parse_type(T), fn, 'ghost ' + g)
        return st

    def param_value(self, st, name, T, c):
        if T[0] == 'fn' and c.callback and c.callback.get('param') == name:
            return VFn(('callback', c.callback))
        return self.make_fresh(st, T, name)

    def run_function(self, c, m, fn):
        st0 = self.entry_state(c, m, fn)
        # a precondition of the shape  (quantifier-free test) or (quantified fact)  -- typically
        # `x is None or forall(...)` -- is split into two entry states: solvers do badly with quantifiers
        # under a disjunction, and the body decides the test on every path anyway
        entries = [st0]
        for r in list(c.requires) + list(c.closure_invariant):
            nxt = []
            for st in entries:
                g = self.eval_spec(st, r, st.frame, assume=True)
                if z3.is_app(g) and g.decl().kind() == z3.Z3_OP_ITE and not smt.has_quant(g.arg(0)) and \
                        smt.has_quant(g) and len(entries) < 8:
                    # if(c, a, b) with a quantifier in a branch: one entry state per branch
                    cnd = g.arg(0)
                    s1 = st.fork()
                    s1.assume(cnd)
                    s1.assume(g.arg(1))
                    st.assume(z3.Not(cnd))
                    st.assume(g.arg(2))
                    nxt.extend([s1, st])
                    continue
                kids = g.children() if z3.is_or(g) else []
                qf = [k for k in kids if not smt.has_quant(k)]
                qq = [k for k in kids if smt.has_quant(k)]
                if qf and qq and len(entries) < 8:
                    a = z3.Or(*qf) if len(qf) > 1 else qf[0]
                    s1 = st.fork()
                    s1.assume(a)
                    s2 = st
                    s2.assume(z3.Not(a))
                    s2.assume(z3.Or(*qq) if len(qq) > 1 else qq[0])
                    nxt.extend([s1, s2])
                else:
                    st.assume(g)
                    nxt.append(st)
            entries = nxt
        feasible_entries = []
        for st in entries:
            v, _, _, _ = smt.decide(list(st.pc) + self.base_axioms(), want_model=False, ext=False)
            if v != 'unsat':
                feasible_entries.append(st)
        # vacuity: the precondition must be satisfiable
        if not feasible_entries:
            raise Unsupported('vacuous: the precondition of %s is unsatisfiable' % c.key, fn)
        for st in feasible_entries:
            self.run_from(c, m, fn, st)

    def run_from(self, c, m, fn, st):
        old = st.fork()
        st.old = old
        self.build_entry_info(st, c)
        outs = self.exec_block(loader.strip_doc(fn.body), st)
        RT = parse_type(c.returns)
        for s, kind, v in outs:
            try:
                if kind in ('return', 'next'):
                    self.exits += 1
                    rv = NONE if kind == 'next' else v
                    rv = self.coerce(s, rv, RT, fn, 'return value of %s' % c.key.split(':')[1])
                    for e in c.lemmas:
                        self.prove(s, self.eval_spec(s, e, s.frame, old=old, result=rv), 'lemma', fn, e)
                    for e in list(c.ensures) + list(c.ensures_local):
                        g = self.eval_spec(s, e, s.frame, old=old, result=rv)
                        self.prove(s, g, 'post', fn, e)
                    # closures used as callbacks: the callee updates its ghost state after the call returns
                    for gname, gexpr in c.ghost_update:
                        gv = self.eval_spec_value(s, gexpr, s.frame, old=old)
                        s.frames[0].loc[gname] = gv
                    for inv in c.closure_invariant:
                        self.prove(s, self.eval_spec(s, inv, s.frame, old=old), 'closure-inv', fn, inv)
                    for e in c.stable:
                        self.prove(s, self.eval_spec(s, e, s.frame, old=old, result=rv), 'stable', fn, e)
                    self.check_frame(s, old, c, fn)
                elif kind == 'raise':
                    self.exits += 1
                    self.check_raise(s, old, c, v, fn)
                else:
                    raise Unsupported('%s outside a loop' % kind, fn)
            except PathDead:
                pass

    def check_raise(self, s, old, c, v, fn):
        allowed = c.raises
        if isinstance(v, VRef):
            ok = OR(*[self.class_is(s, v.t, a) for a in allowed if a in REG.classes])
            self.prove(s, ok, 'raises', fn, 'escaping exception %s is one of %s' % (v.cls, allowed or '[]'))
        else:
            self.prove(s, FALSE, 'raises', fn, 'escaping exception of unknown class (allowed: %s)' % (allowed or '[]'))
        for e in c.ensures_on_raise:
            self.prove(s, self.eval_spec(s, e, s.frame, old=old, result=v, extra={'exc': v}), 'post-raise', fn, e)
        for inv in c.closure_invariant:
            self.prove(s, self.eval_spec(s, inv, s.frame, old=old), 'closure-inv', fn, inv)

    # -- frame condition: every heap location not listed in `modifies` is unchanged
    def check_frame(self, s, old, c, fn):
        if '*' in c.modifies:
            return
        if s.hgen_unknown and not old.hgen_unknown:
            self.prove(s, FALSE, 'frame', fn, 'the whole heap was havocked by an unmodelled effect')
            return
        owned_ok = 'owned' in c.modifies
        allowed = {}     # key -> [ref terms]
        regions = {}     # key -> [(items, len)]: elements of a list
        lists_ok = []
        probe = old.fork()
        probe.spec = True
        wide_keys = set()
        wide_lists = []
        for mexpr in c.modifies:
            mexpr = mexpr.strip()
            if mexpr == 'owned':
                continue
            if '::' in mexpr:
                kind_, what_ = self.classwide_keys(mexpr, fn)
                if kind_ == 'fields':
                    wide_keys.update(k for k, _ in what_)
                else:
                    wide_lists.append(what_)
                    for j in range(len(slots(what_))):
                        wide_keys.add(self.items_key(what_, j))
                continue
            if mexpr.endswith('[*]'):
                v = self.ev1(self.parse_spec(mexpr[:-3]), probe)
                for _, a in (v.alts if isinstance(v, VU) else [(TRUE, v)]):
                    if isinstance(a, VList):
                        allowed.setdefault(LIST_LEN, []).append(a.t)
                        for j in range(len(slots(a.elem))):
                            allowed.setdefault(self.items_key(a.elem, j), []).append(a.t)
                continue
            if mexpr.endswith('{*}'):
                v = self.ev1(self.parse_spec(mexpr[:-3]), probe)
                if isinstance(v, (VMap, VAny)):
                    allowed.setdefault(self.MAP_DOM, []).append(v.t)
                    allowed.setdefault(self.MAP_VAL, []).append(v.t)
                    continue
                for k2, T in self.rec_fields(v.name).items():
                    for j in range(len(slots(parse_type(T)))):
                        allowed.setdefault(('$rec:' + v.name, k2, j), []).append(v.t)
                continue
            if '[*].' in mexpr:
                # 'x[*].f': field f of every object held by list x (as of entry)
                lexpr, fld = mexpr.split('[*].')
                v = self.ev1(self.parse_spec(lexpr), probe)
                region = self.elems_snapshot(old, v, fn)
                owner, T = self.field_info(type_str(v.elem), fld, fn)
                for j in range(len(slots(T))):
                    regions.setdefault((owner, fld, j), []).append(region)
                continue
            t = self.parse_spec(mexpr)
            if isinstance(t, ast.Attribute):
                v = self.ev1(t.value, probe)
                for _, a in (v.alts if isinstance(v, VU) else [(TRUE, v)]):
                    if isinstance(a, VRef):
                        owner, T = self.field_info(a.cls, t.attr, fn)
                        for j in range(len(slots(T))):
                            allowed.setdefault((owner, t.attr, j), []).append(a.t)
            elif isinstance(t, ast.Subscript) and isinstance(t.slice, ast.Constant):
                v = self.ev1(t.value, probe)
                if isinstance(v, VRec):
                    T = parse_type(self.rec_fields(v.name)[t.slice.value])
                    for j in range(len(slots(T))):
                        allowed.setdefault(('$rec:' + v.name, t.slice.value, j), []).append(v.t)
        for key, arr in s.heap.items():
            if key in (OBJ_CLS, LIST_ETYPE):
                continue
            arr0 = old.heap.get(key)
            if arr0 is None:
                arr0 = self.harr(old, key, arr.sort().range())
            if arr.eq(arr0):
                continue
            if key in wide_keys:
                continue
            r = fresh_int('fr')
            limit = old.alloc
            if owned_ok and s.owner_bound is not None:
                limit = s.owner_bound     # closure: objects owned by the enclosing call may be modified
            extra = []
            if key == LIST_LEN and wide_lists:
                et0 = self.harr(old, LIST_ETYPE, IntS)
                extra = [z3.Select(et0, r) != etype_id(T_) for T_ in wide_lists]
            cond = AND(r >= 1, r < limit, *([r != a for a in allowed.get(key, [])] + extra +
                                            [self.elem_not_member(g, r) for g in regions.get(key, [])]))
            goal = IMPL(cond, z3.Select(arr, r) == z3.Select(arr0, r))
            self.prove(s, goal, 'frame', fn, 'only %s modified; checked %s.%s' % (c.modifies or 'nothing', key[0], key[1]))

    # -- counterexample extraction support
    def build_entry_info(self, st, c):
        getters = {}
        strings = []
        frames = st.frames

        def spec_state():
            s0 = (st.old or st).fork()
            s0.spec = True      # no obligations while reading a model
            return s0

        def conc(model, v, depth=0):
            ev = lambda t: model.eval(t, model_completion=True)
            if isinstance(v, VInt):
                return ev(v.t).as_long()
            if isinstance(v, VBool):
                return bool(is_true(ev(v.t)))
            if isinstance(v, VNone):
                return None
            if isinstance(v, VCh):
                k = ev(v.t).as_long()
                return '' if k < 0 else _chr(k)
            if isinstance(v, VStr):
                if v.lit is not None:
                    return v.lit
                n = ev(v.ln).as_long()
                o = ev(v.off).as_long()
                n = max(0, min(n, 64))
                return ''.join(_chr(ev(z3.Select(v.arr, o + i)).as_long()) for i in range(n))
            if isinstance(v, VU):
                for cnd, a in v.alts:
                    if is_true(ev(cnd)):
                        return conc(model, a, depth)
                return '<union?>'
            if isinstance(v, VTuple):
                return tuple(conc(model, x, depth) for x in v.items)
            if isinstance(v, VRef):
                d = {'__class__': v.cls, '__ref__': ev(v.t).as_long()}
                if depth < 2:
                    # dynamic class
                    did = ev(self.dyn_class(st.old or st, v.t)).as_long()
                    for cn, i in REG.class_ids.items():
                        if i == did:
                            d['__class__'] = cn
                    seen = set()
                    todo = [d['__class__']]
                    while todo:
                        cn = todo.pop()
                        cc = REG.classes.get(cn)
                        if not cc or cn in seen:
                            continue
                        seen.add(cn)
                        for f in cc.fields:
                            try:
                                d[f] = conc(model, self.load_field(spec_state(), VRef(cn, v.t), f), depth + 1)
                            except Exception as e:
                                d[f] = '<?>'
                        todo.extend(cc.bases)
                return d
            if isinstance(v, VList):
                s0 = spec_state()
                n = ev(self.list_len(s0, v)).as_long()
                items = []
                for i in range(max(0, min(n, 8))):
                    try:
                        items.append(conc(model, self.list_get(s0, v, z3.IntVal(i)), depth + 1))
                    except Exception:
                        items.append('<?>')
                return {'__list__': items, '__len__': n, '__ref__': ev(v.t).as_long()}
            if isinstance(v, VRec):
                s0 = spec_state()
                d = {'__rec__': v.name}
                for k2 in self.rec_fields(v.name):
                    try:
                        if not is_true(ev(self.rec_present(s0, v, k2))):
                            continue
                        d[k2] = conc(model, self.rec_load(s0, v, k2, check=False), depth + 1)
                    except Exception:
                        d[k2] = '<?>'
                return d
            if isinstance(v, VFn):
                return '<fn %s>' % (v.what[0],)
            return '<%s>' % v.kind

        def collect_strings(v, depth=0):
            if isinstance(v, VStr) and v.lit is None:
                strings.append((v.arr, v.off, v.ln))
            elif isinstance(v, VU):
                for _, a in v.alts:
                    collect_strings(a, depth)
            elif isinstance(v, VTuple):
                for a in v.items:
                    collect_strings(a, depth)
            elif isinstance(v, VRef) and depth < 2:
                seen = set()
                todo = [v.cls]
                while todo:
                    cn = todo.pop()
                    cc = REG.classes.get(cn)
                    if not cc or cn in seen:
                        continue
                    seen.add(cn)
                    for f, T in cc.fields.items():
                        if 'str' in T:
                            try:
                                collect_strings(self.load_field(spec_state(), VRef(cn, v.t), f), depth + 1)
                            except Exception:
                                pass
                    todo.extend(cc.bases)

        for fr in frames:
            for n, v in fr.loc.items():
                if v is None:
                    continue
                getters[n] = (lambda v: lambda model: conc(model, v))(v)
                collect_strings(v)
        self.entry_info = {'getters': getters, 'strings': strings}


def _chr(k):
    if 0 <= k < 0x110000 and not (0xD800 <= k <= 0xDFFF):
        return chr(k)
    return '�'
