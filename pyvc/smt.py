"""pyvc.smt -- solver discipline: z3 (python API) first, then the SMT-LIB dump on
/usr/bin/z3 4.8.12 and /usr/bin/cvc5 for `unknown`.  `sat` from one solver and `unsat`
from another is a checker crash, never a verdict."""
import os
import subprocess
import tempfile
import time
import z3

STATS = {'z3-api': [0, 0.0], 'z3-4.8.12': [0, 0.0], 'cvc5-1.0.3': [0, 0.0],
         'feasibility': [0, 0.0], 'z3-api-sliced': [0, 0.0]}

API_TIMEOUT_MS = int(os.environ.get('PYVC_Z3_MS', '10000'))
EXT_TIMEOUT_S = int(os.environ.get('PYVC_EXT_S', '30'))
FEAS_TIMEOUT_MS = 1500
FIRST_TRY_MS = int(os.environ.get('PYVC_FIRST_MS', '2500'))
SLICE_FIRST = os.environ.get('PYVC_SLICE_FIRST', '1') != '0'


class SolverDisagreement(Exception):
    pass


_HQ = {}


def has_quant(t):
    i = t.get_id()
    e = _HQ.get(i)
    if e is not None and e[0].eq(t):
        return e[1]
    if z3.is_quantifier(t):
        r = True
    elif z3.is_app(t):
        r = any(has_quant(c) for c in t.children())
    else:
        r = False
    if len(_HQ) > 200000:
        _HQ.clear()
    _HQ[i] = (t, r)      # the term is kept alive: z3 re-uses ids of collected terms
    return r


ADAPT = {'first': False, 'miss': 0}


def reset_adaptive():
    ADAPT['first'] = False
    ADAPT['miss'] = 0


_SY = {}


def array_symbols(t):
    "names of the uninterpreted array / function symbols a term mentions"
    i = t.get_id()
    e = _SY.get(i)
    if e is not None and e[0].eq(t):
        return e[1]
    out = set()
    seen = set()
    todo = [t]
    while todo:
        x = todo.pop()
        k = x.get_id()
        if k in seen:
            continue
        seen.add(k)
        if z3.is_quantifier(x):
            todo.append(x.body())
        elif z3.is_app(x):
            d = x.decl()
            if d.kind() == z3.Z3_OP_UNINTERPRETED and (x.num_args() > 0 or z3.is_array(x)):
                out.add(d.name())
            todo.extend(x.children())
    if len(_SY) > 50000:
        _SY.clear()
    _SY[i] = (t, frozenset(out))
    return _SY[i][1]


def sliced_unsat(assertions, per_try_ms=1500, max_hyps=8):
    goal = assertions[-1]
    if not has_quant(goal):
        return False
    gs = array_symbols(goal)
    if not gs:
        return False
    qf = [a for a in assertions[:-1] if not has_quant(a)]
    scored = []
    for n, a in enumerate(assertions[:-1]):
        if has_quant(a):
            ov = len(array_symbols(a) & gs)
            if ov:
                scored.append((ov, n, a))
    if not scored:
        return False
    scored.sort(key=lambda x: (-x[0], -x[1]))      # most overlap first, among equals the most recent
    hyps = [a for _, _, a in scored[:max_hyps]]
    for group in [hyps[:2], hyps[:4], hyps]:
        s = z3.Solver()
        s.set('timeout', per_try_ms)
        s.add(*qf)
        s.add(*group)
        s.add(goal)
        if s.check() == z3.unsat:
            return True
    return False


def feasible(assertions):
    """quick satisfiability check used for path pruning; unknown counts as feasible.  Quantified
    assertions are dropped (an over-approximation: more paths are explored, none is lost)."""
    t0 = time.time()
    s = z3.Solver()
    s.set('timeout', FEAS_TIMEOUT_MS)
    s.add(*[a for a in assertions if not has_quant(a)])
    r = s.check()
    STATS['feasibility'][0] += 1
    STATS['feasibility'][1] += time.time() - t0
    return r != z3.unsat


def _run_ext(cmd, text, timeout):
    with tempfile.NamedTemporaryFile('w', suffix='.smt2', delete=False) as f:
        f.write(text)
        path = f.name
    try:
        p = subprocess.run(cmd + [path], capture_output=True, text=True, timeout=timeout + 5)
        out = p.stdout.strip().splitlines()
        return out[0].strip() if out else 'unknown'
    except subprocess.TimeoutExpired:
        return 'unknown'
    finally:
        os.unlink(path)


def decide(assertions, want_model=True, ext=True):
    """-> (verdict, model_or_None, backend, seconds); verdict in unsat/sat/unknown"""
    t0 = time.time()
    if SLICE_FIRST and ADAPT['first'] and ext and has_quant(assertions[-1]):
        # In this function the full query has already timed out where the slice succeeded: try the slice that
        # talks about the goal's arrays first (milliseconds when the goal is a hypothesis carried over a step
        # that does not touch it).  Switched off again after three misses in a row.
        if sliced_unsat(assertions, per_try_ms=400, max_hyps=4):
            ADAPT['miss'] = 0
            STATS.setdefault('z3-api-sliced', [0, 0.0])
            STATS['z3-api-sliced'][0] += 1
            STATS['z3-api-sliced'][1] += time.time() - t0
            return 'unsat', None, 'z3-api-sliced', time.time() - t0
        ADAPT['miss'] += 1
        if ADAPT['miss'] >= 3:
            ADAPT['first'] = False
    s = z3.Solver()
    # first a short attempt (almost every obligation takes milliseconds); the other solvers are tried
    # before z3 gets its full budget, because cvc5 decides most of z3's slow quantified queries at once
    s.set('timeout', min(FIRST_TRY_MS, API_TIMEOUT_MS) if ext else API_TIMEOUT_MS)
    s.add(*assertions)
    r = s.check()
    dt = time.time() - t0
    STATS['z3-api'][0] += 1
    STATS['z3-api'][1] += dt
    if r == z3.unsat:
        return 'unsat', None, 'z3-api', dt
    if r == z3.sat:
        return 'sat', (s.model() if want_model else None), 'z3-api', dt
    if not ext:
        return 'unknown', None, 'z3-api', dt
    # quantifier-free attempt: a goal without quantifiers (frame obligations, arithmetic) is usually implied by the
    # quantifier-free facts alone, while the quantified hypotheses of the context make the full query time out.
    # A subset of the assumptions: `unsat` here is `unsat` of the whole query.
    t1 = time.time()
    if not has_quant(assertions[-1]) and any(has_quant(a) for a in assertions[:-1]):
        s1 = z3.Solver()
        s1.set('timeout', 3000)
        s1.add(*[a for a in assertions if not has_quant(a)])
        if s1.check() == z3.unsat:
            STATS.setdefault('z3-api-sliced', [0, 0.0])
            STATS['z3-api-sliced'][0] += 1
            STATS['z3-api-sliced'][1] += time.time() - t1
            return 'unsat', None, 'z3-api-sliced', time.time() - t0
    # sliced attempt: the quantifier-free facts plus the few quantified hypotheses that talk about the same
    # arrays as the goal.  A subset of the assumptions: `unsat` here is `unsat` of the whole query.
    t1 = time.time()
    if sliced_unsat(assertions):
        ADAPT['first'] = True
        ADAPT['miss'] = 0
        STATS.setdefault('z3-api-sliced', [0, 0.0])
        STATS['z3-api-sliced'][0] += 1
        STATS['z3-api-sliced'][1] += time.time() - t1
        return 'unsat', None, 'z3-api-sliced', time.time() - t0
    text = '(set-logic ALL)\n' + s.to_smt2()
    verdicts = {}
    for name, cmd in (('cvc5-1.0.3', ['/usr/bin/cvc5', '--lang=smt2', '--tlimit=%d' % (EXT_TIMEOUT_S * 1000)]),
                      ('z3-4.8.12', ['/usr/bin/z3', '-T:%d' % EXT_TIMEOUT_S])):
        if not os.path.exists(cmd[0]):
            continue
        t1 = time.time()
        v = _run_ext(cmd, text, EXT_TIMEOUT_S)
        d1 = time.time() - t1
        STATS[name][0] += 1
        STATS[name][1] += d1
        if v in ('sat', 'unsat'):
            verdicts[name] = v
            if v == 'unsat':
                break
    vs = set(verdicts.values())
    if len(vs) > 1:
        raise SolverDisagreement(str(verdicts))
    dt = time.time() - t0
    if vs:
        v = vs.pop()
        if v == 'sat' and want_model:
            # a counter-model is wanted: give z3 its full budget to produce one
            s.set('timeout', API_TIMEOUT_MS)
            if s.check() == z3.sat:
                return 'sat', s.model(), 'z3-api', time.time() - t0
        return v, None, next(iter(verdicts)), dt
    # last resort: z3 with its full budget
    t1 = time.time()
    s.set('timeout', API_TIMEOUT_MS)
    r = s.check()
    STATS['z3-api'][0] += 1
    STATS['z3-api'][1] += time.time() - t1
    dt = time.time() - t0
    if r == z3.unsat:
        return 'unsat', None, 'z3-api', dt
    if r == z3.sat:
        return 'sat', (s.model() if want_model else None), 'z3-api', dt
    return 'unknown', None, 'all', dt
