"""pyvc.state -- path state, heap (Burstall-Bornat component arrays), typed flattening."""
import z3
from .values import *
from .contracts import REG, parse_type, type_str


class Unsupported(Exception):
    def __init__(self, msg, node=None):
        Exception.__init__(self, msg)
        self.node = node


class PathDead(Exception):
    "the current path cannot continue (failed obligation made it vacuous, or infeasible)"


class TypeMismatch(Exception):
    pass


class Frame:
    __slots__ = ('loc', 'parent', 'module', 'fnkey', 'globals_')

    def __init__(self, module, fnkey, parent=None):
        self.loc = {}
        self.parent = parent      # index into st.frames of the lexically enclosing frame
        self.module = module
        self.fnkey = fnkey

    def copy(self):
        f = Frame(self.module, self.fnkey, self.parent)
        f.loc = dict(self.loc)
        return f


class St:
    def __init__(self):
        self.pc = []
        self.frames = []
        self.heap = {}
        self.alloc = None
        self.hver = 0
        self.lver = 0
        self.spec = False
        self.old = None
        self.result = None
        self.trace = []
        self.depth = 0
        self.hgen = 0
        self.spec_assume = False
        self.hgen_parent = {}      # generation -> (parent generation, alloc bound): agree below the bound
        self.hgen_unknown = False  # an unmodelled effect havocked the whole heap
        self.owner_bound = None    # closures: objects at or above this reference are owned by the enclosing call
        self.fresh_only = None     # inside a loop declared writes='fresh': (bound, exempt receiver terms)
        self.nonneg = frozenset()  # ids of bound variables whose range starts at a literal >= 0 (index needs no wrap)

    def fork(self):
        s = St()
        s.pc = list(self.pc)
        s.frames = [f.copy() for f in self.frames]
        s.heap = dict(self.heap)
        s.alloc = self.alloc
        s.hver = self.hver
        s.lver = self.lver
        s.spec = self.spec
        s.old = self.old
        s.result = self.result
        s.trace = list(self.trace)
        s.depth = self.depth
        s.hgen = self.hgen
        s.spec_assume = self.spec_assume
        s.hgen_parent = self.hgen_parent
        s.hgen_unknown = self.hgen_unknown
        s.owner_bound = self.owner_bound
        s.fresh_only = self.fresh_only
        s.nonneg = self.nonneg
        return s

    def assume(self, c):
        if is_true(c):
            return
        if z3.is_and(c):
            # conjuncts are kept separately: quantifier-free ones stay visible to the feasibility check
            for ch in c.children():
                self.assume(ch)
            return
        self.pc.append(c)

    @property
    def frame(self):
        return self.frames[-1]


# ---------------------------------------------------------------------------
# literal strings: one global constant array per literal, with ground axioms
# ---------------------------------------------------------------------------
_LIT = {}
LIT_AXIOMS = []


def lit_array(s):
    a = _LIT.get(s)
    if a is None:
        a = z3.Const('lit!%d' % len(_LIT), ArrII)
        _LIT[s] = a
        for i, c in enumerate(s):
            LIT_AXIOMS.append(z3.Select(a, i) == ord(c))
    return a


def str_parts(v):
    "-> (arr, off, ln) z3 terms of a VStr (materialising literals)"
    if v.lit is not None:
        return lit_array(v.lit), z3.IntVal(0), z3.IntVal(len(v.lit))
    return v.arr, v.off, v.ln


def str_len(v):
    if v.lit is not None:
        return z3.IntVal(len(v.lit))
    return v.ln


def str_at(v, i):
    "code point at (already normalised, in range) index term i"
    if v.lit is not None:
        if z3.is_int_value(i):
            k = i.as_long()
            if 0 <= k < len(v.lit):
                return z3.IntVal(ord(v.lit[k]))
        t = z3.IntVal(-1)
        for k in range(len(v.lit) - 1, -1, -1):
            t = z3.If(i == k, z3.IntVal(ord(v.lit[k])), t)
        return t
    return z3.Select(v.arr, v.off + i)


# uninterpreted predicates about CPython string methods (axiomatised, cross-checked)
isdecimal_uf = z3.Function('isdecimal', IntS, BoolS)
isdigit_uf = z3.Function('isdigit', IntS, BoolS)
_c = z3.Int('c!ax')
CHAR_AXIOMS = [
    z3.ForAll([_c], z3.Implies(z3.And(_c >= 48, _c <= 57), isdecimal_uf(_c))),
    z3.ForAll([_c], z3.Implies(_c < 48, z3.Not(isdecimal_uf(_c)))),
    z3.ForAll([_c], z3.Implies(z3.And(_c > 57, _c < 128), z3.Not(isdecimal_uf(_c)))),
    z3.ForAll([_c], z3.Implies(isdecimal_uf(_c), isdigit_uf(_c))),
    z3.ForAll([_c], z3.Implies(_c < 48, z3.Not(isdigit_uf(_c)))),
    z3.ForAll([_c], z3.Implies(z3.And(_c > 57, _c < 128), z3.Not(isdigit_uf(_c)))),
]
USED_CHAR_AXIOMS = [False]

# total length of a list of opaque strings: sumlen(ids, n) = len(ids[0]) + ... + len(ids[n-1])
len_any_uf = z3.Function('len_any', IntS, IntS)
sumlen_uf = z3.Function('sumlen', ArrII, IntS, IntS)
_a = z3.Const('a!ax', ArrII)
_n = z3.Int('n!ax')
_i = z3.Int('i!ax')
_x = z3.Int('x!ax')
SUMLEN_AXIOMS = [
    z3.ForAll([_a], sumlen_uf(_a, 0) == 0, patterns=[sumlen_uf(_a, 0)]),
    z3.ForAll([_a, _n], z3.Implies(_n >= 0, sumlen_uf(_a, _n + 1) == sumlen_uf(_a, _n) + len_any_uf(z3.Select(_a, _n))),
              patterns=[sumlen_uf(_a, _n + 1)]),
    # the sum over [0, n) does not depend on elements at or beyond n
    z3.ForAll([_a, _n, _i, _x], z3.Implies(_i >= _n, sumlen_uf(z3.Store(_a, _i, _x), _n) == sumlen_uf(_a, _n)),
              patterns=[sumlen_uf(z3.Store(_a, _i, _x), _n)]),
    z3.ForAll([_x], len_any_uf(_x) >= 0, patterns=[len_any_uf(_x)]),
]
USED_SUMLEN = [False]


# ---------------------------------------------------------------------------
# typed flattening
# ---------------------------------------------------------------------------

def slots(T):
    "list of sorts a value of type T flattens to"
    k = T[0]
    if k in ('int', 'char', 'echar', 'ref', 'list', 'any', 'rec', 'enum', 'pred', 'fn', 'map'):
        return [IntS]
    if k == 'bool':
        return [BoolS]
    if k == 'float':
        return [RealS]
    if k == 'none':
        return []
    if k == 'str':
        return [ArrII, IntS, IntS]
    if k == 'tuple':
        out = []
        for x in T[1]:
            out.extend(slots(x))
        return out
    if k == 'union':
        out = [IntS]
        for x in T[1]:
            out.extend(slots(x))
        return out
    raise Unsupported('type %r' % (T,))


def default_term(sort):
    if sort == IntS:
        return z3.IntVal(0)
    if sort == BoolS:
        return FALSE
    if sort == RealS:
        return z3.RealVal(0)
    if sort == ArrII:
        return z3.K(IntS, z3.IntVal(0))
    raise Unsupported('sort %s' % sort)


def conforms(v, T):
    "static kind test (no obligations)"
    k = T[0]
    if isinstance(v, VU):
        return all(conforms(a, T) for _, a in v.alts)
    if k == 'any':
        return True
    if k == 'map':
        return isinstance(v, (VMap, VAny)) or (isinstance(v, VConst) and v.py == {})
    if k == 'int':
        return isinstance(v, (VInt, VBool))
    if k == 'bool':
        return isinstance(v, VBool)
    if k == 'float':
        return isinstance(v, (VFloat, VInt))
    if k == 'none':
        return isinstance(v, VNone)
    if k in ('char', 'echar'):
        if isinstance(v, VCh):
            return True
        if isinstance(v, VStr):
            if v.lit is not None:
                return len(v.lit) == 1 or (k == 'echar' and len(v.lit) == 0)
            return True
        return False
    if k == 'str':
        return isinstance(v, (VStr, VCh))
    if k == 'ref':
        return isinstance(v, VRef) and (REG.is_subclass(v.cls, T[1]) or REG.is_subclass(T[1], v.cls))
    if k == 'list':
        return isinstance(v, VList) and (v.elem == T[1] or v.elem == ('any',) or T[1] == ('any',))
    if k == 'tuple':
        return isinstance(v, VTuple) and len(v.items) == len(T[1]) and \
            all((any(conforms(x, t) for _, x in a.alts) if isinstance(a, VU) else conforms(a, t))
                for a, t in zip(v.items, T[1]))     # coerce() turns the non-fitting alternatives into obligations
    if k == 'union':
        return any(conforms(v, t) for t in T[1])
    if k == 'rec':
        if isinstance(v, VConst) and isinstance(v.py, dict):
            return True
        return isinstance(v, VRec) and (v.name == T[1] or T[1] in REG.rec_optional)
    if k in ('pred', 'fn'):
        return isinstance(v, VFn)
    if k == 'enum':
        return isinstance(v, VStr) and v.lit is not None and v.lit in T[1]
    return False
