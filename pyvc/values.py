"""pyvc.values -- symbolic Python values (static Python-side tag per path) and the
flattening of typed values into z3 terms (heap fields, list items)."""
import itertools
import z3

IntS = z3.IntSort()
BoolS = z3.BoolSort()
RealS = z3.RealSort()
ArrII = z3.ArraySort(IntS, IntS)

_cnt = itertools.count()


def fresh_name(base):
    return '%s!%d' % (base, next(_cnt))


def fresh(sort, base='v'):
    return z3.Const(fresh_name(base), sort)


def fresh_int(base='i'):
    return z3.Int(fresh_name(base))


def fresh_bool(base='b'):
    return z3.Bool(fresh_name(base))


TRUE = z3.BoolVal(True)
FALSE = z3.BoolVal(False)


def is_true(t):
    return z3.is_true(t)


def is_false(t):
    return z3.is_false(t)


def simp(t):
    return z3.simplify(t)


def AND(*xs):
    xs = [x for x in xs if not z3.is_true(x)]
    if any(z3.is_false(x) for x in xs):
        return FALSE
    if not xs:
        return TRUE
    if len(xs) == 1:
        return xs[0]
    return z3.And(*xs)


def OR(*xs):
    xs = [x for x in xs if not z3.is_false(x)]
    if any(z3.is_true(x) for x in xs):
        return TRUE
    if not xs:
        return FALSE
    if len(xs) == 1:
        return xs[0]
    return z3.Or(*xs)


def NOT(x):
    if z3.is_true(x):
        return FALSE
    if z3.is_false(x):
        return TRUE
    if z3.is_not(x):
        return x.arg(0)
    return z3.Not(x)


def IMPL(a, b):
    if z3.is_true(a):
        return b
    if z3.is_false(a) or z3.is_true(b):
        return TRUE
    return z3.Implies(a, b)


def ITE(c, a, b):
    if z3.is_true(c):
        return a
    if z3.is_false(c):
        return b
    if a.eq(b):
        return a
    return z3.If(c, a, b)


class V:
    __slots__ = ()
    kind = '?'


class VInt(V):
    __slots__ = ('t',)
    kind = 'int'

    def __init__(self, t):
        self.t = z3.IntVal(t) if isinstance(t, int) else t

    def __repr__(self):
        return 'VInt(%s)' % self.t


class VFloat(V):
    __slots__ = ('t',)
    kind = 'float'

    def __init__(self, t):
        self.t = z3.RealVal(t) if isinstance(t, (int, float)) else t


class VBool(V):
    __slots__ = ('t',)
    kind = 'bool'

    def __init__(self, t):
        self.t = z3.BoolVal(t) if isinstance(t, bool) else t

    def __repr__(self):
        return 'VBool(%s)' % self.t


class VNone(V):
    __slots__ = ()
    kind = 'none'

    def __repr__(self):
        return 'VNone'


NONE = VNone()


class VCh(V):
    """one-character-or-empty string: code point, -1 == ''"""
    __slots__ = ('t',)
    kind = 'ch'

    def __init__(self, t):
        self.t = z3.IntVal(t) if isinstance(t, int) else t

    def __repr__(self):
        return 'VCh(%s)' % self.t


class VStr(V):
    """string view: (array of code points, offset, length); `lit` is set for literals"""
    __slots__ = ('arr', 'off', 'ln', 'lit')
    kind = 'str'

    def __init__(self, arr=None, off=None, ln=None, lit=None):
        self.arr = arr
        self.off = off
        self.ln = ln
        self.lit = lit

    def __repr__(self):
        if self.lit is not None:
            return 'VStr(%r)' % self.lit
        return 'VStr(%s,%s,%s)' % (self.arr, self.off, self.ln)


class VRef(V):
    __slots__ = ('cls', 't')
    kind = 'ref'

    def __init__(self, cls, t):
        self.cls = cls
        self.t = t

    def __repr__(self):
        return 'VRef(%s,%s)' % (self.cls, self.t)


class VRec(V):
    "dict used as a record with literal keys (lives in the heap)"
    __slots__ = ('name', 't')
    kind = 'rec'

    def __init__(self, name, t):
        self.name = name
        self.t = t


class VList(V):
    __slots__ = ('elem', 't')
    kind = 'list'

    def __init__(self, elem, t):
        self.elem = elem      # canonical type tuple of the elements
        self.t = t

    def __repr__(self):
        return 'VList(%s,%s)' % (self.elem, self.t)


class VTuple(V):
    __slots__ = ('items',)
    kind = 'tuple'

    def __init__(self, items):
        self.items = list(items)

    def __repr__(self):
        return 'VTuple(%r)' % (self.items,)


class VU(V):
    "guarded union of values of different kinds; guards are exhaustive and exclusive"
    __slots__ = ('alts',)
    kind = 'union'

    def __init__(self, alts):
        self.alts = alts      # [(cond, V)]

    def __repr__(self):
        return 'VU(%r)' % (self.alts,)


class VFn(V):
    """function value.  what:
         ('repo', key)               repository function by key
         ('closure', key, frame)     nested def + defining frame
         ('bound', selfval, key)     bound method
         ('pred', uf)                symbolic character predicate (uninterpreted)
         ('builtin', name)
         ('callback', spec)          symbolic callback described by the contract
         ('lambda', node, frame)"""
    __slots__ = ('what',)
    kind = 'fn'

    def __init__(self, what):
        self.what = what

    def __repr__(self):
        return 'VFn(%r)' % (self.what[:2],)


class VClass(V):
    __slots__ = ('module', 'name')
    kind = 'class'

    def __init__(self, module, name):
        self.module = module
        self.name = name


class VModule(V):
    __slots__ = ('name',)
    kind = 'module'

    def __init__(self, name):
        self.name = name


class VMap(V):
    """general dict: heap-resident map from key ids to opaque value ids (dom / val arrays)"""
    __slots__ = ('t',)
    kind = 'map'

    def __init__(self, t):
        self.t = t

    def __repr__(self):
        return 'VMap(%s)' % self.t


class VKey(V):
    "a key id bound by forall_keys() in a specification"
    __slots__ = ('t',)
    kind = 'key'

    def __init__(self, t):
        self.t = t


class VConst(V):
    "module-level literal container (list / dict / tuple / set), assumed never mutated"
    __slots__ = ('py',)
    kind = 'const'

    def __init__(self, py):
        self.py = py

    def __repr__(self):
        return 'VConst(%r)' % (self.py,)


class VAny(V):
    "opaque value (uninterpreted id)"
    __slots__ = ('t',)
    kind = 'any'

    def __init__(self, t=None):
        self.t = fresh_int('any') if t is None else t


def mk_union(alts):
    "normalise a guarded union: drop false guards, collapse singletons"
    alts = [(c, v) for c, v in alts if not is_false(c)]
    flat = []
    for c, v in alts:
        if isinstance(v, VU):
            for c2, v2 in v.alts:
                cc = AND(c, c2)
                if not is_false(cc):
                    flat.append((cc, v2))
        else:
            flat.append((c, v))
    for c, v in flat:
        if is_true(c):
            return v
    if len(flat) == 1:
        return flat[0][1]
    # merge same-kind scalar alternatives
    merged = []
    for c, v in flat:
        done = False
        for i, (c0, v0) in enumerate(merged):
            m = _merge_same(c0, v0, c, v)
            if m is not None:
                merged[i] = (OR(c0, c), m)
                done = True
                break
        if not done:
            merged.append((c, v))
    if len(merged) == 1:
        return merged[0][1]
    return VU(merged)


def _merge_same(c0, v0, c, v):
    if type(v0) is not type(v):
        return None
    if isinstance(v, VInt):
        return VInt(ITE(c, v.t, v0.t))
    if isinstance(v, VBool):
        return VBool(ITE(c, v.t, v0.t))
    if isinstance(v, VCh):
        return VCh(ITE(c, v.t, v0.t))
    if isinstance(v, VNone):
        return v
    if isinstance(v, VRef) and v.cls == v0.cls:
        return VRef(v.cls, ITE(c, v.t, v0.t))
    if isinstance(v, VList) and v.elem == v0.elem:
        return VList(v.elem, ITE(c, v.t, v0.t))
    if isinstance(v, VMap):
        return VMap(ITE(c, v.t, v0.t))
    if isinstance(v, VAny):
        return VAny(ITE(c, v.t, v0.t))
    if isinstance(v, VFloat):
        return VFloat(ITE(c, v.t, v0.t))
    if isinstance(v, VTuple) and len(v.items) == len(v0.items):
        items = []
        for a0, a in zip(v0.items, v.items):
            m = _merge_same(c0, a0, c, a)
            if m is None:
                return None
            items.append(m)
        return VTuple(items)
    if isinstance(v, VStr) and v.lit is None and v0.lit is None:
        return VStr(ITE(c, v.arr, v0.arr), ITE(c, v.off, v0.off), ITE(c, v.ln, v0.ln))
    return None


def _pattern_ok(t):
    "may this term serve as a trigger?  (no boolean / ite structure, which z3 rejects)"
    todo = [t]
    n = 0
    while todo:
        x = todo.pop()
        n += 1
        if n > 400:
            return False
        if not z3.is_app(x):
            continue
        k = x.decl().kind()
        if k in (z3.Z3_OP_ITE, z3.Z3_OP_AND, z3.Z3_OP_OR, z3.Z3_OP_NOT, z3.Z3_OP_IMPLIES, z3.Z3_OP_EQ,
                 z3.Z3_OP_LE, z3.Z3_OP_GE, z3.Z3_OP_LT, z3.Z3_OP_GT, z3.Z3_OP_DISTINCT, z3.Z3_OP_IFF):
            return False
        todo.extend(x.children())
    return True


def forall_trig(qs, body, trig):
    "ForAll with an explicit trigger when the trigger is admissible, else with z3's own choice"
    if _pattern_ok(trig):
        try:
            return z3.ForAll(qs, body, patterns=[trig])
        except z3.Z3Exception:
            pass
    return z3.ForAll(qs, body)
