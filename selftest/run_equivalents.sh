#!/bin/sh
# selftest/run_equivalents.sh -- behaviour-preserving edits must never produce a VIOLATION line (developer tool).
# Applies each patch of selftest/equivalents to a scratch worktree of /repo HEAD, runs pytest and the quick
# checks of the properties whose contracted functions the patch touches, removes the worktree.
set -u
W=/tmp/equiv_scratch_$$
git -C /repo worktree add -q --detach "$W" HEAD || exit 3
rc=0
for p in /verif/selftest/equivalents/*.diff; do
  git -C "$W" checkout -q -- .
  git -C "$W" apply "$p" || { echo "cannot apply $p"; rc=3; continue; }
  t=$(cd "$W" && /venv/bin/python -m pytest -q -p no:cacheprovider 2>&1 | tail -1)
  for id in ${EQUIV_PROPS:-C16 C18 C09 C10}; do
    out=$(cd /verif && PYVC_REPO="$W" VERIF_EVIDENCE_DIR=/tmp/equiv_ev_$$ VERIF_REPLAY_DIR=/tmp/equiv_rp_$$ python3-vt check.py $id --tier quick 2>&1)
    ec=$?
    nv=$(echo "$out" | grep -c '^VIOLATION')
    nu=$(echo "$out" | grep -c '^UNDECIDED')
    echo "$(basename $p) [$t] $id exit=$ec violations=$nv undecided=$nu"
    [ "$nv" -ne 0 ] && { echo "$out" | grep '^VIOLATION' | head -3; rc=1; }
    [ "$ec" -ne 0 ] && rc=1
  done
done
git -C /repo worktree remove --force "$W"
rm -rf /tmp/equiv_ev_$$ /tmp/equiv_rp_$$
exit $rc
