"""tools/known_keys.py <bounded-result.json> <clause> -> JSON list of the violation keys of that clause
(used once, by hand, when a genuine defect is recorded as a known finding; never at check time)."""
import json
import sys
r = json.load(open(sys.argv[1]))
for c in r['clauses']:
    if c['clause'] == sys.argv[2]:
        print(json.dumps([v['key'] for v in c['violations']]))
