#!/bin/bash
# runs the registered quick check of every property against /repo and rewrites evidence/<id>.json (developer tool)
cd /verif
rc=0
for i in $(seq -w 1 20); do
  id=C$i
  out=$(python3-vt check.py $id --tier quick 2>&1 | grep -v "^WARNING")
  ec=$?
  echo "$out" | grep -E "^(VIOLATION|UNDECIDED|CRASH|$id tier)" | cut -c1-220
  [ "$ec" -ne 0 ] && { echo "$id exit=$ec"; rc=1; }
done
exit $rc
