"""tools/rt_crosscheck.py [seconds per function] -- developer self-test (run under /venv/bin/python).

Every function whose contract the verifier proves is also run on the real code under the run-time reader of the
same contract (random typed inputs + small exhaustive strings, monitor/replay.py).  On the unchanged tree no
input may break a proved postcondition: a report here means the run-time reader and the verifier disagree about
a clause (or the verifier is unsound) and has to be investigated before the search-on-unknown can be trusted."""
import json
import multiprocessing as mp
import sys
sys.path.insert(0, '/verif')


def one(args):
    key, budget = args
    import contracts  # noqa
    from monitor import replay
    try:
        r = replay.run(key, {}, budget)
    except BaseException as e:      # noqa
        return key, {'confirmed': False, 'error': repr(e)[:200]}
    return key, r


def main():
    budget = float(sys.argv[1]) if len(sys.argv) > 1 else 3.0
    import contracts  # noqa
    from pyvc.contracts import REG
    keys = [k for k, c in REG.fns.items() if not c.inline and not c.trusted and '.<locals>.' not in k]
    bad = 0
    tried = 0
    with mp.Pool(int(__import__("os").environ.get("RT_NPROC", "12"))) as pool:
        for key, r in pool.imap_unordered(one, [(k, budget) for k in keys]):
            tried += r.get('tried', 0) or 0
            if r.get('confirmed'):
                bad += 1
                print('DISAGREEMENT', key, json.dumps(r, default=repr)[:700])
            elif r.get('error') or r.get('search_error'):
                print('note', key, (r.get('error') or r.get('search_error'))[:160])
    print('functions: %d, calls made: %d, disagreements: %d' % (len(keys), tried, bad))
    return 1 if bad else 0


if __name__ == '__main__':
    sys.exit(main())
