"""tools/seed_eval.py <PID> <variant dir with patch.diff demo.py README.md> [<name>]

Confirms a seeded change (applies it to a scratch worktree of /repo HEAD, pytest 141 green, demo FAILs with /
PASSes without the patch), runs the property's quick check against the scratch copy, stores everything under
/verif/seeded/<name>/ and removes the scratch copy.  Developer tool; not a registered check."""
import json
import os
import shutil
import subprocess
import sys
import time

pid, src = sys.argv[1], sys.argv[2].rstrip('/')
name = sys.argv[3] if len(sys.argv) > 3 else '%s-%s' % (pid, os.path.basename(src))
scratch = '/tmp/seed_eval_%s' % name
out = '/verif/seeded/%s' % name
meta = {'property': pid, 'name': name, 'ran': {}}


def run(cmd, cwd=None, env=None, timeout=3600):
    p = subprocess.run(cmd, cwd=cwd, env=env, capture_output=True, text=True, timeout=timeout)
    return p.returncode, (p.stdout + p.stderr)


subprocess.run(['git', '-C', '/repo', 'worktree', 'remove', '--force', scratch], capture_output=True)
rc, o = run(['git', '-C', '/repo', 'worktree', 'add', '--detach', scratch, 'HEAD'])
assert rc == 0, o
try:
    # keep the layout the demos were written for (<worktree>/_out/<variant>/demo.py) and make hard-coded
    # worktree paths point at the scratch copy
    vdir = os.path.join(scratch, '_out', os.path.basename(src))
    os.makedirs(os.path.dirname(vdir), exist_ok=True)
    shutil.copytree(src, vdir)
    os.symlink(vdir, os.path.join(scratch, '_seed'))
    import re
    dp = os.path.join(vdir, 'demo.py')
    txt = open(dp).read()
    txt2 = re.sub(r'/tmp/mut\d?_C\d\d', scratch, txt)
    if txt2 != txt:
        open(dp, 'w').write(txt2)
    # demo on the unchanged code
    rc, o = run(['/venv/bin/python', os.path.join('_out', os.path.basename(src), 'demo.py')], cwd=scratch)
    meta['ran']['demo_unpatched'] = {'exit': rc, 'tail': o[-300:]}
    rc2, o2 = run(['git', 'apply', '_seed/patch.diff'], cwd=scratch)
    meta['ran']['git_apply'] = {'exit': rc2, 'tail': o2[-300:]}
    rc3, o3 = run(['/venv/bin/python', '-m', 'pytest', '-q', '-p', 'no:cacheprovider'], cwd=scratch)
    meta['ran']['pytest_patched'] = {'exit': rc3, 'tail': o3.strip().splitlines()[-1] if o3.strip() else ''}
    rc4, o4 = run(['/venv/bin/python', os.path.join('_out', os.path.basename(src), 'demo.py')], cwd=scratch)
    meta['ran']['demo_patched'] = {'exit': rc4, 'tail': o4[-400:]}
    valid = rc == 0 and rc2 == 0 and rc3 == 0 and '141 passed' in o3 and rc4 != 0
    meta['confirmed'] = valid
    env = dict(os.environ, PYVC_REPO=scratch, VERIF_EVIDENCE_DIR='/tmp/seed_evid_%s' % name,
               VERIF_REPLAY_DIR='/tmp/seed_replays_%s' % name)
    t0 = time.time()
    rc5, o5 = run(['python3-vt', 'check.py', pid, '--tier', 'quick'], cwd='/verif', env=env)
    lines = [l for l in o5.splitlines() if l.startswith(('VIOLATION', 'UNDECIDED', 'CRASH', 'KNOWN-FINDING'))]
    meta['ran']['check_quick'] = {'cmd': 'PYVC_REPO=<scratch> python3-vt check.py %s --tier quick' % pid, 'exit': rc5,
                                  'secs': round(time.time() - t0, 1), 'lines': [l[:300] for l in lines[:8]],
                                  'summary': [l for l in o5.splitlines() if l.startswith(pid + ' tier')][:1]}
    meta['detected'] = rc5 == 1 and any(l.startswith('VIOLATION') for l in lines)
    det = []
    for l in lines:
        if l.startswith('VIOLATION'):
            if 'obligation=' in l:
                det.append('deductive:' + l.split('obligation=')[1][:160])
            else:
                det.append('bounded:' + l.split('replay=')[1].split('/')[-1][:80])
    meta['detected_by'] = det[:6]
    os.makedirs(out, exist_ok=True)
    for f in ('patch.diff', 'demo.py', 'README.md'):
        if os.path.exists(os.path.join(src, f)) and os.path.realpath(src) != os.path.realpath(out):
            shutil.copy(os.path.join(src, f), os.path.join(out, f))
    meta['how_to_run_demo'] = ('copy this directory to <worktree>/_out/<variant>/ and run `cd <worktree> && /venv/bin/python '
                               '_out/<variant>/demo.py`; a demo that names /tmp/mut_CXX expects the worktree at that path')
    try:
        readme = open(os.path.join(src, 'README.md')).read()
        meta['needs_to_manifest'] = readme[:1200]
    except Exception:
        pass
    json.dump(meta, open(os.path.join(out, 'meta.json'), 'w'), indent=1)
    print('%s confirmed=%s detected=%s exit=%s %s' % (name, valid, meta['detected'], rc5, det[:2]))
finally:
    subprocess.run(['git', '-C', '/repo', 'worktree', 'remove', '--force', scratch], capture_output=True)
    shutil.rmtree('/tmp/seed_evid_%s' % name, ignore_errors=True)
    shutil.rmtree('/tmp/seed_replays_%s' % name, ignore_errors=True)
