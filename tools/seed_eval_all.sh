#!/bin/bash
# re-evaluates every stored seeded change (seeded/<name>/) against the current checks; two streams
# developer tool; not a registered check
cd /verif
ls seeded | sort > /tmp/seed_names.txt
run_stream() {
  while read n; do
    timeout 2400 python3 tools/seed_eval.py ${n%%-*} /verif/seeded/$n $n 2>&1 | grep -v WARNING | tail -1
  done
}
awk 'NR%2==1' /tmp/seed_names.txt | run_stream > /tmp/seeds_s1.log 2>&1 &
awk 'NR%2==0' /tmp/seed_names.txt | run_stream > /tmp/seeds_s2.log 2>&1 &
wait
cat /tmp/seeds_s1.log /tmp/seeds_s2.log | sort
